#!/usr/bin/env python3
"""Regenerate the table of DESIGN.md section 0.7 from seeded/*/meta.json (prints a per-round summary)."""
import json
import re
from collections import Counter
from pathlib import Path

V = Path(__file__).resolve().parent.parent
rows, caught, missed = [], Counter(), Counter()
for d in sorted((V / "seeded").iterdir()):
    m = json.loads((d / "meta.json").read_text())
    rnd = m.get("round", "?")
    if m.get("superseded") or m.get("status") == "superseded":
        verdict = "superseded by a fix"
    elif m.get("detected"):
        verdict = "yes: " + ", ".join(c.strip() for c in m.get("reported_clauses", [])[:3])
    else:
        verdict = "NO"
    first = "yes -> strengthened" if m.get("initially_missed") else "no"
    (missed if m.get("initially_missed") else caught)[rnd] += 1
    rows.append(f"| `seeded/{d.name}` | {rnd} | {verdict} | {first} |")
table = "| seeded change | round | caught by `./check <P> quick` (clauses) | missed at first? |\n|---|---|---|---|\n" + "\n".join(rows) + "\n"
p = V / "DESIGN.md"
s = p.read_text()
s2 = re.sub(r"\| seeded change \| round \|.*?\n\n", table + "\n", s, count=1, flags=re.S)
p.write_text(s2)
print(len(rows), "rows;", {r: (caught[r], missed[r]) for r in sorted(set(caught) | set(missed), key=str)})
