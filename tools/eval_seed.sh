#!/bin/bash
# usage: tools/eval_seed.sh <dir with patch.diff + demo.py> <property> [tier]
# Confirms the seeded change (suite passes, demo fails with / passes without it) in a scratch worktree and runs the
# property's check against it (VERIF_REPO).  Prints a one-line verdict.  The scratch worktree is removed afterwards.
set -u
D=$1; P=$2; TIER=${3:-quick}
W=/tmp/ev_$$_$RANDOM
git -C /repo worktree add -q $W HEAD || exit 2
cd $W
cp $D/demo.py $W/_demo.py
base_demo=$( /venv/bin/python _demo.py >/dev/null 2>&1; echo $? )
if ! git apply -3 $D/patch.diff 2>/dev/null; then echo "SEED $D: patch does not apply"; git -C /repo worktree remove --force $W; exit 2; fi
tests=$( /venv/bin/python -m pytest -p no:cacheprovider -o addopts="" -q 2>&1 | tail -1 )
mut_demo=$( /venv/bin/python _demo.py >/dev/null 2>&1; echo $? )
cd /verif
out=$( VERIF_REPO=$W ./check $P $TIER 2>&1 )
rc=$?
clauses=$( echo "$out" | grep -o "clause=[^ ]*" | sort | uniq -c | sort -rn | head -5 | tr '\n' ';' )
echo "SEED $D prop=$P tests=[$tests] demo_base=$base_demo demo_mut=$mut_demo check_rc=$rc $clauses"
git -C /repo worktree remove --force $W
