#!/usr/bin/env python3
"""Import independently written breaking changes (/tmp/seed_<P>/_out/<x>/) into /verif/seeded/<P>-<x>/ and record the
verdict lines produced by tools/eval_seed.sh (given as log files)."""
import json
import re
import shutil
import sys
from pathlib import Path

VERIF = Path(__file__).resolve().parent.parent
logs = " ".join(Path(p).read_text() for p in sys.argv[1:])
pat = re.compile(r"SEED (/tmp/seed_(\w+)/_out/([\w-]+)) prop=(C\d+) tests=\[([^\]]*)\] demo_base=(\d+) demo_mut=(\d+) check_rc=(\d+)(.*)")
for m in pat.finditer(logs):
    src, grp, x, prop, tests, db, dm, rc, rest = m.groups()
    if "-" in x:
        x = x.split("-", 1)[1]
    src = Path(src)
    dst = VERIF / "seeded" / f"{prop}-{x}"
    dst.mkdir(parents=True, exist_ok=True)
    for f in ("patch.diff", "demo.py", "notes.md"):
        if (src / f).exists():
            shutil.copy(src / f, dst / f)
    clauses = re.findall(r"clause=([^;]+);", rest)
    notes = (src / "notes.md").read_text() if (src / "notes.md").exists() else ""
    meta = {
        "breaks_property": prop,
        "written_by": "independent sub-agent given only the property text and a scratch worktree",
        "needs_to_manifest": " ".join(notes.split())[:900],
        "confirmed": {"suite_with_change": tests, "demo_exit_unchanged": int(db), "demo_exit_with_change": int(dm)},
        "ran": f"tools/eval_seed.sh {src} {prop}  (scratch worktree of /repo HEAD + patch, VERIF_REPO=<worktree> ./check {prop} quick)",
        "check_exit_code": int(rc),
        "detected": int(rc) == 1,
        "reported_clauses": clauses,
    }
    (dst / "meta.json").write_text(json.dumps(meta, indent=1))
    print(dst.name, "detected" if int(rc) == 1 else f"NOT detected (rc={rc})", clauses[:3])
