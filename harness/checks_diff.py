"""Check C11: diff() laws (spec/NutreeDiff.tla) on all pairs of small labelled trees and random larger pairs."""
from __future__ import annotations

import json
import multiprocessing as mp
import random
import sys
import time

from nutree.diff import DiffClassification as DC

from . import core, flavours, pipeline as P
from .findings import Report, env_seed

MARKS = {DC.ADDED: "added", DC.REMOVED: "removed", DC.MOVED_HERE: "moved_here", DC.MOVED_TO: "moved_to"}


def project_result(tree, fl):
    order = []

    def walk(nodes, parent):
        for nd in nodes:
            order.append((nd, parent))
            walk(nd.children, len(order))

    walk(tree.children, 0)
    n = len(order)
    ident = {id(nd): i + 1 for i, (nd, _) in enumerate(order)}
    st = {"n": n, "par": [p for _, p in order], "kids": [[ident[id(c)] for c in nd.children] for nd, _ in order],
          "top": [ident[id(c)] for c in tree.children], "dat": [fl.data_index(nd.data) for nd, _ in order],
          "did": [fl.model_did(nd.data_id) for nd, _ in order], "knd": [0] * n, "meta": [[0]] * n, "typed": False,
          "mark": [], "o0": [], "o1": []}
    known = True
    for nd, _ in order:
        dc = nd.get_meta("dc")
        o0 = o1 = 0
        if dc is None:
            m = "none"
        elif isinstance(dc, tuple) and len(dc) == 2:
            m, o0, o1 = "order", dc[0], dc[1]
        elif dc in MARKS:
            m = MARKS[dc]
        else:
            m, known = "unknown", False
        st["mark"].append(m)
        st["o0"].append(o0)
        st["o1"].append(o1)
    return st, known


def _pairs(args):
    pairs, flname, base = args
    fl = flavours.make(flname.split("+")[0], flname.endswith("+typed"))
    fl1 = fl
    if flname == "nstr":     # the second tree holds equal, but distinct string objects
        fl1 = flavours.make("nstr")
        fl1.fresh = True
    out = []
    k = 0
    for s0, s1 in pairs:
        s0 = core.norm_state(s0)
        s1 = core.norm_state(s1)
        keep = ("n", "par", "kids", "top", "dat", "did", "knd", "meta", "typed")
        s0 = {x: s0[x] for x in keep}
        s1 = {x: s1[x] for x in keep}
        # some input nodes carry metadata of their own (the inputs must come back untouched, meta included)
        s0["meta"] = [[1] if i % 2 == 0 else [0] for i in range(s0["n"])]
        s1["meta"] = [[2] if i % 3 == 0 else [0] for i in range(s1["n"])]
        for ordered in (False, True):
            full = None
            for reduce in (False, True):
                b0 = core.build(s0, fl, name="t0")
                b1 = core.build(s1, fl1, name="t1")
                rec = {"id": base + k, "fl": flname, "t0": s0, "t1": s1, "ordered": ordered, "reduce": reduce,
                       "r": {"n": 0, "par": [], "kids": [], "top": [], "dat": [], "did": [], "knd": [], "meta": [], "typed": False,
                             "mark": [], "o0": [], "o1": []},
                       "inputs_same": True, "marks_known": True}
                k += 1
                try:
                    r = b0.tree.diff(b1.tree, ordered=ordered, reduce=reduce)
                    rec["r"], rec["marks_known"] = project_result(r, fl)
                    rec["status"] = "ok"
                    if not reduce:
                        full = rec["r"]
                    elif full is not None:
                        rec["full"] = full      # the unreduced result for the same inputs (law reduce_is_restriction)
                except Exception as e:  # noqa: BLE001
                    rec["status"] = type(e).__name__
                rec["inputs_same"] = core.project(b0)["st"] == s0 and core.project(b1)["st"] == s1
                out.append(rec)
    return out


def run_pairs(rep, pairs, flname, label):
    t0 = time.time()
    chunks = [pairs[i::32] for i in range(32) if pairs[i::32]]
    jobs, base = [], 0
    for ch in chunks:
        jobs.append((ch, flname, base))
        base += 4 * len(ch)
    with mp.get_context("fork").Pool(16) as pool:
        outs = pool.map(_pairs, jobs)
    recs = [r for o in outs for r in o]
    mism, checked, wall = P.validate_records(recs, module="TraceDiff.tla", tag="diff", shards=16)
    if checked != len(recs):
        raise P.TLCError(f"{label}: validated {checked} of {len(recs)}")
    byid = {r["id"]: r for r in recs}
    rep.validated += len(recs)
    rep.evaluations += len(recs)
    for r in recs:
        if r["t0"] != r["t1"]:
            rep.nontrivial.add(hash((json.dumps(r["t0"]), json.dumps(r["t1"]), r["ordered"], r["reduce"])))
    if recs:
        r = recs[len(recs) // 2]
        rep.add_sample({"t0": {k: r["t0"][k] for k in ("top", "kids", "dat")}, "t1": {k: r["t1"][k] for k in ("top", "kids", "dat")},
                        "ordered": r["ordered"], "reduce": r["reduce"],
                        "result": {k: r["r"][k] for k in ("top", "kids", "dat", "mark")}})
    for m in mism:
        if m["property"] == "C11":
            rec = byid.get(m["id"])
            rep.mismatch(m, {k: rec[k] for k in ("fl", "t0", "t1", "ordered", "reduce", "r", "status")} if rec else None)
    rep.stages.append({"stage": label, "pairs": len(pairs), "records": len(recs), "wall_s": round(time.time() - t0, 1)})


def random_tree(rng, n, d):
    """random sibling-unique labelled forest as abstract state (pre-order ids)"""
    par, dat = [], []
    for i in range(1, n + 1):
        for _ in range(20):
            p = rng.randint(0, i - 1)
            x = rng.randint(1, d)
            if all(not (par[j] == p and dat[j] == x) for j in range(len(par))):
                par.append(p)
                dat.append(x)
                break
    n = len(par)
    # renumber to pre-order
    kids = {i: [] for i in range(0, n + 1)}
    for i, p in enumerate(par, 1):
        kids[p].append(i)
    order = []

    def walk(p):
        for c in kids[p]:
            order.append(c)
            walk(c)

    walk(0)
    new = {o: k + 1 for k, o in enumerate(order)}
    new[0] = 0
    st = {"n": n, "par": [0] * n, "kids": [[] for _ in range(n)], "top": [new[c] for c in kids[0]], "dat": [0] * n,
          "did": [0] * n, "knd": [0] * n, "meta": [[0]] * n, "typed": False}
    for o in order:
        i = new[o]
        st["par"][i - 1] = new[par[o - 1]]
        st["kids"][i - 1] = [new[c] for c in kids[o]]
        st["dat"][i - 1] = dat[o - 1]
        st["did"][i - 1] = dat[o - 1]
    return st


def mutate(rng, st, d):
    """a random edit of st (remove a branch / add a node / reorder siblings / relabel) -> new state"""
    from . import randops
    fl = flavours.make("str")
    b = core.build(st, fl)
    from . import trace
    for _ in range(rng.randint(1, 3)):
        cur = trace.snapshot(b)
        op = randops.random_op(cur, rng, D=d, max_nodes=10, families=["add", "move", "remove", "sort", "set_data"])
        core.execute(b, op)
    cur = trace.snapshot(b)
    return {k: cur[k] for k in ("n", "par", "kids", "top", "dat", "did", "knd", "meta", "typed")}


def wrap_moves(sts, fresh=(7, 8)):
    """edit-derived pairs (a, b): b is a with one branch moved to the bottom of a NEW chain of two fresh labels
    (a move into depth 2 of an added branch), the chain appended at the top level or below another node"""
    from . import trace
    fl = flavours.make("str")
    keep = ("n", "par", "kids", "top", "dat", "did", "knd", "meta", "typed")
    out = []
    for a in sts:
        a = core.norm_state(a)
        for x in range(1, a["n"] + 1):
            for host in (0, 1 if x != 1 else 2):
                if host > a["n"]:
                    continue
                b = core.build(a, fl)
                try:
                    chain = b.node(host).add(fl.data(fresh[0])).add(fl.data(fresh[1]))
                    b.nodes[x].move_to(chain)
                except Exception:  # noqa: BLE001   (host inside the moved branch etc.)
                    continue
                b.nodes = [None] + [nd for nd in b.nodes[1:] if nd is not None]
                cur = trace.snapshot(b)
                out.append(({k: a[k] for k in keep}, {k: cur[k] for k in keep}))
    return out


def run(prop: str, tier: str) -> int:
    from .checks_query import labelled
    seed = env_seed()
    rep = Report("C11", tier, seed)
    rep.dedupe_on_why = False
    quick = tier == "quick"
    rep.rule = ("all ordered pairs of labelled forests with clones in the bound (states enumerated by TLC) and random "
                "larger pairs (independent and edit-derived), each with ordered x reduce; TLC (TraceDiff) evaluates every "
                "law of NutreeDiff!Laws on the real result. non-trivial = the two inputs differ.")
    rep.assumptions = ["string data (Node.__eq__ = data equality = identity of the label); equal-comparing distinct data is "
                       "outside the statement ('a shared label alphabet')",
                       "which of several added clones becomes MOVED_HERE is not pinned (set iteration order)"]
    sts = labelled(rep, max_nodes=3, d=2 if quick else 3, label="labelled<=3")
    pairs = [(a, b) for a in sts for b in sts]
    run_pairs(rep, pairs, "str", "all pairs")
    # the same labels as distinct string objects in the second tree (as after load(), or computed labels)
    run_pairs(rep, pairs[::5] if quick else pairs, "nstr", "pairs with equal, but distinct label objects")
    wm = wrap_moves(sts if quick else labelled(rep, max_nodes=3, d=2, label="labelled<=3x2"))
    run_pairs(rep, wm + [(b, a) for a, b in wm], "str", "moves into a new two-level branch (and back)")
    # TypedTree inputs (open finding KF-diff-typed: diff() builds a plain Tree and cannot copy typed nodes into it)
    tp = [(dict(a, typed=True, knd=[1] * a["n"]), dict(b, typed=True, knd=[1] * b["n"]))
          for a, b in [(core.norm_state(x), core.norm_state(y)) for x, y in pairs[1:40:6]]]
    run_pairs(rep, tp, "str+typed", "typed inputs")
    rng = random.Random(seed)
    rp = []
    for _ in range(300 if quick else 6000):
        a = random_tree(rng, rng.randint(0, 8), 4)
        b = mutate(rng, a, 4) if rng.random() < 0.7 else random_tree(rng, rng.randint(0, 8), 4)
        rp.append((a, b))
    run_pairs(rep, rp, "str", "random pairs")
    if not quick:
        sts4 = labelled(rep, max_nodes=4, d=3, label="labelled<=4")
        rng.shuffle(sts4)
        pairs = [(a, b) for a in sts4[:200] for b in sts4[200:400]]
        run_pairs(rep, pairs, "str", "pairs<=4 sample")
    rep.exhaustive = True
    return rep.finish()


if __name__ == "__main__":
    sys.exit(run("C11", sys.argv[1] if len(sys.argv) > 1 else "quick"))
