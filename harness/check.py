"""Dispatcher: ./check <ID> [quick|thorough] | ./check <ID> --replay <file> | ./check --selftest"""
from __future__ import annotations

import os
import sys
import traceback

CORE = {"C01", "C02", "C03", "C04", "C07", "C13"}
QUERY = {"C06", "C08", "C09", "C10", "C15", "C16", "C17"}


def main(argv):
    if len(argv) < 2:
        print(__doc__)
        return 2
    prop = argv[1]
    if prop == "--selftest":
        from . import selftest
        return selftest.main()
    tier = os.environ.get("VERIF_TIER", "quick")
    replay = None
    for a in argv[2:]:
        if a in ("quick", "thorough"):
            tier = a
    if "--tier" in argv:
        tier = argv[argv.index("--tier") + 1]
    if "--replay" in argv:
        replay = argv[argv.index("--replay") + 1]
    try:
        if replay:
            from . import replay as R
            return R.replay_file(prop, replay)
        if prop in CORE:
            from . import checks_core
            return checks_core.run(prop, tier)
        if prop in QUERY:
            from . import checks_query
            return checks_query.run(prop, tier)
        if prop in ("C05", "C12", "C14"):
            from . import checks_serial
            return checks_serial.run(prop, tier)
        if prop == "C11":
            from . import checks_diff
            return checks_diff.run(prop, tier)
        if prop == "C19":
            from . import checks_fs
            return checks_fs.run(prop, tier)
        if prop == "C20":
            from . import checks_gen
            return checks_gen.run(prop, tier)
        if prop == "C18":
            from . import checks_lock
            return checks_lock.run(prop, tier)
        print(f"unknown property {prop}")
        return 2
    except Exception as e:  # noqa: BLE001
        traceback.print_exc()
        print(f"MACHINERY-FAILURE: {type(e).__name__}: {e}")
        return 2


if __name__ == "__main__":
    sys.exit(main(sys.argv))
