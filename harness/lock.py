"""C18: real threads under (a) schedules forced from TLC behaviours of spec/NutreeLock.tla and
(b) free-running stress; every run yields an event trace validated by TLC (spec/TraceLock.tla).

Nothing in /repo is patched: the tree's own lock object is wrapped by a delegating tracer
(so replacing RLock by Lock, or dropping `with self:` in an operation, is felt), reads are seen
through the user callbacks the operations take (mapper / predicate), snapshots through their content.
No sleeps; timeouts only guard the machinery."""
from __future__ import annotations

import io
import json
import threading

from nutree import Tree

SAFETY_TIMEOUT = 20.0


class MachineryTimeout(Exception):
    pass


class Recorder:
    def __init__(self):
        self.mutex = threading.Lock()
        self.events = []

    def log(self, t, a, v=0, got="", exp=""):
        with self.mutex:
            self.events.append({"t": t, "a": a, "v": v, "got": got, "exp": exp})


class Scheduler:
    """Forced mode: a thread may perform action (t, a) only when it is the head of the schedule.
    Free mode (schedule None): actions are only recorded."""

    def __init__(self, rec: Recorder, schedule=None, silent=()):
        self.rec = rec
        self.schedule = list(schedule) if schedule is not None else None
        self.pos = 0
        self.cv = threading.Condition()
        self.failed = None
        self.silent = set(silent)  # (thread, action) pairs of the spec that the implementation cannot announce
        self.names = {}
        self.leak = None   # name of a thread whose operation returned while it still owned the tree lock

    def name(self):
        return self.names.get(threading.get_ident(), "?")

    def register(self, name):
        self.names[threading.get_ident()] = name

    def _skip_silent(self):
        while self.pos < len(self.schedule) and tuple(self.schedule[self.pos]) in self.silent:
            self.pos += 1

    def step(self, a, v=0):
        t = self.name()
        if self.schedule is None:
            self.rec.log(t, a, v)
            return
        with self.cv:
            while True:
                if self.failed:
                    raise _Abort()
                self._skip_silent()
                if self.pos >= len(self.schedule):
                    self.failed = ("extra", t, a)
                    self.rec.log(t, "deviation", got=a, exp="nothing")
                    self.cv.notify_all()
                    raise _Abort()
                ht, ha = self.schedule[self.pos]
                if ht == t:
                    if ha == a:
                        self.pos += 1
                        self.rec.log(t, a, v)
                        self._skip_silent()
                        self.cv.notify_all()
                        return
                    # the thread's next step in the specification's behaviour is a different one
                    self.failed = ("deviation", t, a, ha)
                    self.rec.log(t, "deviation", got=a, exp=ha)
                    self.cv.notify_all()
                    raise _Abort()
                if not self.cv.wait(SAFETY_TIMEOUT):
                    self.failed = ("timeout", t, a)
                    self.cv.notify_all()
                    raise MachineryTimeout(f"{t} waited for its turn to do {a}; head is {self.schedule[self.pos]}")


class _Abort(BaseException):
    pass


class TracingLock:
    """Delegates to the tree's real lock object; announces try / acq / rel.
    lk numbers the lock objects made for one run; the first acquire of each thread announces which one it uses."""

    def __init__(self, inner, sched: Scheduler, lk=1):
        self.inner = inner
        self.sched = sched
        self.owner = None
        self.depth = 0
        self.lk = lk
        self.users = set()

    def acquire(self, blocking=True, timeout=-1):
        me = threading.get_ident()
        who = self.sched.name()     # (not the thread ident: a finished thread's ident is handed out again)
        if who not in self.users:
            self.users.add(who)
            self.sched.rec.log(who, "uses", self.lk)
        if self.owner == me and self.depth >= (1 if self.sched.name().startswith("r") else 2):
            # a snapshot operation may nest acquisitions of the re-entrant lock (e.g. TypedTree.save -> Tree.save):
            # the protocol steps are a reader's OUTERMOST acquire / release and, for the owner's nested snapshot
            # operation, its first (second-level) one
            if not self.inner.acquire(False):
                self.sched.rec.log(self.sched.name(), "not_reentrant")
                raise _Abort()
            self.depth += 1
            return True
        self.sched.step("try")
        if not blocking:
            # the operation asked for a NON-blocking acquire: the attempt happens right now
            if not self.inner.acquire(False):
                self.sched.rec.log(self.sched.name(), "deviation", got="nonblocking_acquire_failed", exp="acq")
                return False
            self.sched.step("acq")
            self.owner = me
            self.depth += 1
            return True
        if self.sched.schedule is not None:
            # cooperative: the acquisition itself happens at the specification's Acquire step
            self.sched.step("acq")
            if not self.inner.acquire(False):
                if self.owner == me:
                    self.sched.rec.log(self.sched.name(), "not_reentrant")
                else:
                    self.sched.rec.log(self.sched.name(), "deviation", got="lock_unavailable", exp="acq")
                self.sched.failed = ("lock",)
                with self.sched.cv:
                    self.sched.cv.notify_all()
                raise _Abort()
        else:
            if not self.inner.acquire(False):
                if self.owner == me:
                    self.sched.rec.log(self.sched.name(), "not_reentrant")
                    raise _Abort()
                waited = 0.0
                while not self.inner.acquire(True, 0.05):
                    waited += 0.05
                    if self.sched.leak:
                        # the lock will never be free: its owner's operation has returned without releasing it (the
                        # trace already shows that, see "end"); this thread gives up instead of timing out
                        self.sched.rec.log(self.sched.name(), "deviation", got="lock_never_released_by_" + self.sched.leak, exp="acq")
                        raise _Abort()
                    if waited >= SAFETY_TIMEOUT:
                        raise MachineryTimeout("free-running acquire")
            self.sched.step("acq")  # logged while the lock is held
        self.owner = me
        self.depth += 1
        return True

    def release(self):
        if self.depth > (1 if self.sched.name().startswith("r") else 2):
            self.depth -= 1
            self.inner.release()
            return
        self.sched.step("rel")  # logged before the lock is given up
        self.depth -= 1
        if self.depth == 0:
            self.owner = None
        self.inner.release()

    __enter__ = acquire

    def __exit__(self, *a):
        self.release()


class _LockFactory:
    """Stands in for the `threading` module as nutree.tree sees it while one run is set up and executed: lock objects
    the library creates are born as TracingLocks.  A lock created by one of the run's threads (i.e. lazily, inside an
    operation, instead of at construction) is announced ("newlock"), and the creating thread lingers a moment between
    "there is no lock yet" and handing the new lock back - the window in which another thread can come by."""

    def __init__(self, real, sched: Scheduler):
        self._real = real
        self._sched = sched
        self._cv = real.Condition()
        self._made = 0
        self._lazy = 0
        self._main = None

    def __getattr__(self, name):
        return getattr(self._real, name)

    def _make(self, inner):
        import sys
        owner = sys._getframe(2).f_locals.get("self")     # the object whose method asked for the lock
        with self._cv:
            if self._main is None and owner is not None:
                self._main = owner                            # the first tree built under the factory: the run's tree
            if owner is None or owner is not self._main:
                return inner                                  # locks of other trees (targets, copies) are not traced
            self._made += 1
            tl = TracingLock(inner, self._sched, self._made)
        who = self._sched.name()
        if who != "?":
            self._sched.rec.log(who, "newlock", tl.lk)
            with self._cv:
                self._lazy += 1
                self._cv.notify_all()
                self._cv.wait_for(lambda: self._lazy >= 2, 0.05)
        return tl

    def RLock(self, *a, **kw):
        return self._make(self._real.RLock(*a, **kw))

    def Lock(self, *a, **kw):
        return self._make(self._real.Lock(*a, **kw))


class _install_factory:
    def __init__(self, sched):
        import nutree.tree as nt
        self.nt = nt
        self.sched = sched

    def __enter__(self):
        self.saved = {}
        nt = self.nt
        if getattr(nt, "threading", None) is threading:
            self.saved["threading"] = nt.threading
            nt.threading = _LockFactory(threading, self.sched)
            fac = nt.threading
        else:
            fac = _LockFactory(threading, self.sched)
        for nm in ("RLock", "Lock"):     # `from threading import RLock`
            if getattr(nt, nm, None) is getattr(threading, nm):
                self.saved[nm] = getattr(nt, nm)
                setattr(nt, nm, getattr(fac, nm))
        return self

    def __exit__(self, *a):
        for nm, v in self.saved.items():
            setattr(self.nt, nm, v)


# ------------------------------------------------------------------------------------------------
BASE = ["x", "y"]  # the tree's committed initial content
OPS = ["save_stream", "save_path", "copy", "copy_pred", "filtered", "copy_to", "to_dict_list", "to_dotfile", "with",
       "copy_to_refused", "save_mapper_raises", "to_dotfile_path", "copy_to_same"]
SILENT_READ_OPS = {"copy", "copy_to", "copy_to_refused", "copy_to_same"}  # operations without a user callback: reads cannot be announced


class ExpectedFailure(Exception):
    """the operation ended with the exception the scenario provokes (the lock must be free afterwards)"""


class Boom(Exception):
    pass


def _dot_names(text):
    import re
    names = re.findall(r'label="([^"]*)"', text)
    return [n for n in names if n != "locked"]   # (the root node carries the tree's name)


def _entry_name(payload, nodes=None):
    if isinstance(payload, str):
        return payload
    if isinstance(payload, int) and nodes is not None:      # a clone reference: the entry at that position
        return _entry_name(nodes[payload - 1][1], nodes)
    return payload.get("str", payload.get("s", "?"))


def _entry_names(nodes):
    return [_entry_name(e[1], nodes) for e in nodes]


_variant = threading.local()


class _same_target:      # (one run at a time per process)
    node = None


def markers(names):
    """version of the tree that a snapshot with these node names shows.
    normal writer: every mutation adds one marker node -> version = number of distinct markers
    (distinct names: filtered()/copy(predicate) repeat an accepted node below itself, a known finding of C08).
    'split' writer (first mutation empties the tree, second rebuilds it with both markers): base only -> 0,
    empty -> 1 (uncommitted), base + two markers -> 2, anything else -> -1."""
    names = set(names)
    m = len({n for n in names if n.startswith("w")})
    if not getattr(_variant, "split", False):
        return m
    base = all(b in names for b in BASE)
    if base and m == 0:
        return 0
    if not names:
        return 1
    if base and m == 2:
        return 2
    return -1


def run_reader_op(tree, op, sched: Scheduler, tmpdir):
    """perform the snapshot operation; returns the version its result shows"""
    calls = {"n": 0}

    def note_read():
        calls["n"] += 1
        if calls["n"] <= 2:
            sched.step("read")

    def mapper(node, data):
        note_read()
        return data

    def pred(node):
        note_read()
        return True

    if op == "save_stream":
        fp = io.StringIO()
        tree.save(fp, mapper=mapper, key_map=False)
        names = _entry_names(json.loads(fp.getvalue())["nodes"])
        return markers(names), calls["n"]
    if op == "save_path":
        path = f"{tmpdir}/lock_{threading.get_ident()}.json"
        tree.save(path, mapper=mapper)
        with open(path) as f:
            names = _entry_names(json.load(f)["nodes"])
        return markers(names), calls["n"]
    if op == "copy":
        t2 = tree.copy()
        return markers([n.name for n in t2]), 0
    if op == "copy_pred":
        t2 = tree.copy(predicate=pred)
        return markers([n.name for n in t2]), calls["n"]
    if op == "filtered":
        t2 = tree.filtered(pred)
        return markers([n.name for n in t2]), calls["n"]
    if op == "copy_to":
        t2 = type(tree)("target")
        tree.copy_to(t2)
        return markers([n.name for n in t2]), 0
    if op == "copy_to_same":
        # the target is a node of the SAME tree (the first committed top-level node, looked up before the threads
        # started): the copies of the top-level nodes below it are the snapshot
        from nutree.common import UniqueConstraintError
        tgt = _same_target.node
        try:
            tree.copy_to(tgt, deep=False)
        except UniqueConstraintError:      # another reader of this run did the same before
            raise ExpectedFailure() from None
        return markers([n.name for n in tgt.children]), 0
    if op == "copy_to_refused":
        # the target already holds one of the top-level nodes: refused with the uniqueness error inside the lock
        from nutree.common import UniqueConstraintError
        t2 = type(tree)("target")
        if hasattr(t2, "DEFAULT_CHILD_TYPE"):
            t2.add(BASE[0], kind="base", data_id="id_" + BASE[0])
        else:
            t2.add(BASE[0], data_id="id_" + BASE[0])
        try:
            tree.copy_to(t2)
        except UniqueConstraintError:
            raise ExpectedFailure() from None
        return -1, 0
    if op == "save_mapper_raises":
        def bad_mapper(node, data):
            note_read()
            if calls["n"] == 2:
                raise Boom()
            return data
        try:
            tree.save(io.StringIO(), mapper=bad_mapper, key_map=False)
        except Boom:
            raise ExpectedFailure() from None
        return -1, calls["n"]
    if op == "to_dict_list":
        dl = tree.to_dict_list(mapper=mapper)
        return markers([d["data"] for d in dl]), calls["n"]
    if op == "to_dotfile":
        fp = io.StringIO()
        tree.to_dotfile(fp, node_mapper=mapper)
        return markers(_dot_names(fp.getvalue())), calls["n"]
    if op == "to_dotfile_path":
        path = f"{tmpdir}/lock_{threading.get_ident()}.gv"
        tree.to_dotfile(path, node_mapper=mapper)
        with open(path) as f:
            return markers(_dot_names(f.read())), calls["n"]
    if op == "with":
        with tree:
            sched.step("read")
            a = markers([n.name for n in tree])
            sched.step("read")
            b = markers([n.name for n in tree])
        return (a if a == b else -1), 2
    raise ValueError(op)


class SharedLockTree(Tree):
    """a user's subclass that guards `with tree:` with a lock of its own (e.g. one lock for a whole forest): the
    snapshot operations promise to honour `with tree:`, whatever lock that is"""
    _forest_lock = None

    def __enter__(self):
        self._forest_lock.acquire()
        return self

    def __exit__(self, *a):
        self._forest_lock.release()


def build_tree(typed=False, shared=False):
    if shared:
        tree = SharedLockTree("locked")
        for n in BASE:
            tree.add(n, data_id="id_" + n)
        tree.children[0].add("xc", data_id="id_xc")
        return tree
    if typed:
        from nutree.typed_tree import TypedTree
        tree = TypedTree("locked")
        for n in BASE:
            tree.add(n, kind="base", data_id="id_" + n)
        tree.children[0].add("xc", kind="base", data_id="id_xc")
        return tree
    tree = Tree("locked")
    for n in BASE:
        tree.add(n, data_id="id_" + n)  # explicit ids: save() stores dict entries, so its mapper sees every node
    tree.children[0].add("xc", data_id="id_xc")     # (target of copy_to_same)
    return tree


def run_trace(op, *, schedule=None, nested=True, nested_op="to_dict_list", writers=("w1",), readers=("r1",), tmpdir="/tmp",
              trace_id=0, reader_ops=None, typed=False, rebuild=False, shared=False):
    """One execution with real threads.  Returns the trace record for TraceLock."""
    rec = Recorder()
    silent = set()
    rops = reader_ops or {r: op for r in readers}
    for r in readers:
        if rops[r] in SILENT_READ_OPS:
            silent.add((r, "read"))
    for w in writers:
        silent.add((w, "read"))  # the owner's nested snapshot is observed through its content (nsnap)
    sched = Scheduler(rec, schedule, silent)
    with _install_factory(sched):
        return _run_trace(sched, rec, rops, op, schedule=schedule, nested=nested, nested_op=nested_op, writers=writers,
                          readers=readers, tmpdir=tmpdir, trace_id=trace_id, typed=typed, rebuild=rebuild, shared=shared)


def _run_trace(sched, rec, rops, op, *, schedule, nested, nested_op, writers, readers, tmpdir, trace_id, typed, rebuild,
               shared=False):
    tree = build_tree(typed, shared)
    if shared:
        tree._forest_lock = TracingLock(threading.RLock(), sched, lk=99)
    if tree._lock is not None and not isinstance(tree._lock, TracingLock):
        tree._lock = TracingLock(tree._lock, sched)    # a lock object the factory did not see being made
    _same_target.node = tree.children[0].children[0]
    errors = []
    version = {"v": 0}

    def writer(name, k):
        sched.register(name)
        _variant.split = rebuild == "split"
        try:
            with tree:
                sched.step("mut", version["v"] + 1)
                version["v"] += 1
                if rebuild:
                    # the first mutation empties the tree (every list object of the old tree is dropped) ...
                    old = [(n.name, n.data_id, getattr(n, "kind", None)) for n in tree.children]
                    tree.clear()
                if rebuild != "split":
                    if rebuild:     # ... and rebuilds it at once
                        for nm, did, kd in old:
                            if typed:
                                tree.add(nm, kind=kd, data_id=did)
                            else:
                                tree.add(nm, data_id=did)
                    if typed:   # every mutation introduces a new kind (the kind list is part of a typed snapshot)
                        tree.add(f"w{k}a", kind=f"ka{k}", data_id=f"id_w{k}a")
                    else:
                        tree.add(f"w{k}a", data_id=f"id_w{k}a")
                if nested:
                    # the owner calls a snapshot operation inside its critical section (re-entrant acquire)
                    if nested_op == "with":
                        with tree:
                            shows = markers([n.name for n in tree])
                    else:
                        shows, _ = _owner_snapshot(tree, nested_op, tmpdir)
                    rec.log(name, "nsnap", shows)
                sched.step("mut", version["v"] + 1)
                version["v"] += 1
                if rebuild == "split":   # ... or only in the second mutation (the tree is EMPTY in between)
                    for nm, did, kd in old:
                        tree.add(nm, data_id=did)
                    tree.add(f"w{k}a", data_id=f"id_w{k}a")
                if typed:
                    tree.add(f"w{k}b", kind=f"kb{k}", data_id=f"id_w{k}b")
                else:
                    tree.add(f"w{k}b", data_id=f"id_w{k}b")
        except _Abort:
            pass
        except MachineryTimeout as e:
            errors.append(e)
        except Exception as e:  # noqa: BLE001
            rec.log(name, "error", got=type(e).__name__)

    def reader(name):
        sched.register(name)
        _variant.split = rebuild == "split"
        try:
            sched.step("start")
            try:
                shows, ncalls = run_reader_op(tree, rops[name], sched, tmpdir)
                rec.log(name, "snap", shows)
            except ExpectedFailure:
                pass  # no snapshot; the protocol (acquire ... release) must have been completed nevertheless
            lk = tree._forest_lock if shared else tree._lock
            if isinstance(lk, TracingLock) and lk.owner == threading.get_ident() and lk.depth > 0:
                sched.leak = name     # the operation returned, the lock is still held (reported at "end")
            sched.step("end")
        except _Abort:
            pass
        except MachineryTimeout as e:
            errors.append(e)
        except Exception as e:  # noqa: BLE001
            rec.log(name, "error", got=type(e).__name__)
            try:
                sched.step("end")
            except BaseException:  # noqa: BLE001
                pass

    threads = [threading.Thread(target=writer, args=(w, i + 1), daemon=True) for i, w in enumerate(writers)]
    threads += [threading.Thread(target=reader, args=(r,), daemon=True) for r in readers]
    for th in threads:
        th.start()
    for th in threads:
        th.join(SAFETY_TIMEOUT * 2)
        if th.is_alive():
            raise MachineryTimeout(f"thread did not finish (op={op}, schedule={schedule})")
    if errors:
        raise errors[0]
    return {"id": trace_id, "op": ("typed:" if typed else "") + ("shared-lock-subclass:" if shared else "") + (f"rebuild-{rebuild}:" if rebuild else "") + "+".join(sorted(set(rops.values()))) + ("/nested:" + nested_op if nested else ""),
            "events": rec.events, "forced": schedule is not None}


def _owner_snapshot(tree, op, tmpdir):
    """snapshot operation called by the lock owner inside its critical section: returns (shown version, 0)"""
    if op == "to_dict_list":
        return markers([d["data"] for d in tree.to_dict_list()]), 0
    if op == "copy":
        return markers([n.name for n in tree.copy()]), 0
    if op == "save_stream":
        fp = io.StringIO()
        tree.save(fp, key_map=False)
        return markers(_entry_names(json.loads(fp.getvalue())["nodes"])), 0
    if op == "copy_to":
        t2 = type(tree)("t")
        tree.copy_to(t2)
        return markers([n.name for n in t2]), 0
    if op == "to_dotfile":
        fp = io.StringIO()
        tree.to_dotfile(fp)
        return markers(_dot_names(fp.getvalue())), 0
    if op == "filtered":
        return markers([n.name for n in tree.filtered(lambda n: True)]), 0
    raise ValueError(op)
