"""known_findings.json handling, replay files, evidence files, exit protocol."""
from __future__ import annotations

import json
import os
import time
from pathlib import Path

VERIF = Path(__file__).resolve().parent.parent
FINDINGS = VERIF / "known_findings.json"
REPLAY = VERIF / "work" / "replay"
EVIDENCE = VERIF / "evidence"


def load_findings(prop: str):
    if not FINDINGS.exists():
        return []
    data = json.loads(FINDINGS.read_text())
    return [f for f in data.get("findings", []) if f["property"] == prop and f.get("status") == "open"]


def _sub(small, big):
    if isinstance(small, dict):
        return isinstance(big, dict) and all(k in big and _sub(v, big[k]) for k, v in small.items())
    return small == big


def match_finding(findings, mismatch: dict, record: dict | None):
    """A mismatch is covered by an open finding iff the finding's key fields equal the mismatch's
    (clause / why, compared as prefixes when the key ends with '*') and its `where` pattern is a
    sub-structure of the record (op arguments, flavour, status...)."""
    for f in findings:
        ok = True
        for k, v in f.get("key", {}).items():
            mv = str(mismatch.get(k, ""))
            if isinstance(v, str) and v.endswith("*"):
                ok = ok and mv.startswith(v[:-1])
            else:
                ok = ok and mv == v
        if ok and f.get("where"):
            ok = record is not None and _sub(f["where"], record)
        if ok:
            return f
    return None


class Report:
    """Collects what a check did; writes evidence; prints the verdict lines; returns the exit code."""

    def __init__(self, prop: str, tier: str, seed: int, level="model_checking"):
        self.prop = prop
        self.tier = tier
        self.seed = seed
        self.level = level
        self.t0 = time.time()
        self.states = 0
        self.transitions = 0
        self.validated = 0
        self.evaluations = 0
        self.nontrivial = set()
        self.samples = []
        self.violations = []  # (mismatch, record)
        self.known_hits = {}
        self.assumptions = []
        self.stages = []
        self.rule = ""
        self.exhaustive = False
        self.extra = {}
        self.findings = load_findings(prop)
        self.dedupe_on_why = True

    def add_mc(self, res, label):
        self.states += res.distinct
        self.transitions += res.generated
        self.stages.append({"stage": label, "tlc_distinct_states": res.distinct, "tlc_states_generated": res.generated,
                            "wall_s": round(res.wall, 1)})

    def add_sample(self, s):
        if len(self.samples) < 6:
            self.samples.append(s)

    def mismatch(self, m: dict, record: dict | None):
        f = match_finding(self.findings, m, record)
        if f is not None:
            self.known_hits.setdefault(f["id"], 0)
            self.known_hits[f["id"]] += 1
        else:
            self.violations.append((m, record))

    def finish(self) -> int:
        wall = time.time() - self.t0
        REPLAY.mkdir(parents=True, exist_ok=True)
        EVIDENCE.mkdir(parents=True, exist_ok=True)
        lines = []
        seen = set()
        nviol = 0
        for m, rec in self.violations:
            key = (m.get("clause"), m.get("why") if self.dedupe_on_why else None)
            if key in seen:
                continue
            seen.add(key)
            nviol += 1
            if nviol > 25:
                continue
            path = REPLAY / f"{self.prop}-{self.tier}-{nviol}.json"
            path.write_text(json.dumps({"property": self.prop, "mismatch": m, "record": rec}, indent=1, default=str))
            lines.append(f"VIOLATION property={self.prop} replay={path}")
            print(f"  clause={m.get('clause')} why={m.get('why')} "
                  f"op={json.dumps((rec or {}).get('op'), default=str)[:300]} status={(rec or {}).get('status')}")
        for f in self.findings:
            hits = self.known_hits.get(f["id"], 0)
            print(f"KNOWN-FINDING: property={self.prop} {f['id']}: {f['description']} "
                  f"[{'reproduced %d times in this run' % hits if hits else 'not exercised in this run'}]")
        cov = {
            "states": self.states,
            "transitions": self.transitions,
            "traces_validated_against_impl": self.validated,
            "samples": self.samples or [{"note": "no sample recorded"}],
            "evaluations": self.evaluations,
            "distinct_nontrivial": len(self.nontrivial),
            "rule": self.rule,
            "exhaustive": self.exhaustive,
            "stages": self.stages,
            "known_findings_hit": self.known_hits,
            "distinct_violations": nviol,
        }
        cov.update(self.extra)
        ev = {
            "property_id": self.prop,
            "tier": self.tier,
            "seed": self.seed,
            "level": self.level,
            "coverage": cov,
            "assumptions": self.assumptions,
            "wall_s": round(wall, 2),
            "violations": nviol,
        }
        evdir = EVIDENCE
        if os.environ.get("VERIF_REPO", "/repo").rstrip("/") != "/repo":
            # a run against a scratch copy (seeded-change evaluation) must not overwrite the evidence of /repo
            evdir = VERIF / "work" / "evidence-scratch"
            evdir.mkdir(parents=True, exist_ok=True)
        (evdir / f"{self.prop}.json").write_text(json.dumps(ev, indent=1, default=str))
        for l in lines:
            print(l)
        print(f"{self.prop} {self.tier}: states={self.states} transitions={self.transitions} "
              f"validated={self.validated} violations={nviol} known={sum(self.known_hits.values())} wall={wall:.1f}s")
        return 1 if nviol else 0


def env_seed() -> int:
    try:
        return int(os.environ.get("VERIF_SEED", "0"))
    except ValueError:
        return 0
