"""Run TLC on a spec module with a generated .cfg, collect statistics, emitted JSON and PrintT tuples."""
from __future__ import annotations

import hashlib
import json
import os
import re
import shutil
import subprocess
import time
from pathlib import Path

VERIF = Path(__file__).resolve().parent.parent
SPEC = VERIF / "spec"
WORK = VERIF / "work"
JAR = "/opt/veriftools/tla/tla2tools.jar:/opt/veriftools/tla/CommunityModules-deps.jar"


class TLCError(Exception):
    pass


def spec_sha() -> str:
    h = hashlib.sha256()
    for p in sorted(SPEC.glob("*.tla")):
        h.update(p.name.encode())
        h.update(p.read_bytes())
    return h.hexdigest()[:16]


def fmt_const(v):
    if isinstance(v, bool):
        return "TRUE" if v else "FALSE"
    if isinstance(v, int):
        return str(v)
    if isinstance(v, str):
        return v  # raw TLA+ text (e.g. a set or a quoted string)
    if isinstance(v, (set, frozenset, list, tuple)):
        return "{" + ", ".join(fmt_const(x) if not isinstance(x, str) else json.dumps(x) for x in sorted(v, key=str)) + "}"
    raise TypeError(v)


def write_cfg(path: Path, *, spec="Spec", init=None, next_=None, constants=None, subst=None, invariants=(),
              properties=(), view=None, action_constraints=(), constraints=(), postcondition=None,
              deadlock=False):
    lines = []
    if init:
        lines += [f"INIT {init}", f"NEXT {next_}"]
    else:
        lines.append(f"SPECIFICATION {spec}")
    if constants or subst:
        lines.append("CONSTANTS")
        for k, v in (constants or {}).items():
            lines.append(f"  {k} = {fmt_const(v)}")
        for k, v in (subst or {}).items():
            lines.append(f"  {k} <- {v}")
    if view:
        lines.append(f"VIEW {view}")
    for i in invariants:
        lines.append(f"INVARIANT {i}")
    for p in properties:
        lines.append(f"PROPERTY {p}")
    for a in action_constraints:
        lines.append(f"ACTION_CONSTRAINT {a}")
    for c in constraints:
        lines.append(f"CONSTRAINT {c}")
    if postcondition:
        lines.append(f"POSTCONDITION {postcondition}")
    lines.append(f"CHECK_DEADLOCK {'TRUE' if deadlock else 'FALSE'}")
    path.write_text("\n".join(lines) + "\n")


_STATS = re.compile(r"(\d+) states generated, (\d+) distinct states found, (\d+) states left on queue")


class TLCResult:
    """TLC's output is kept in a file (emission runs print hundreds of MB)."""

    def __init__(self, out_path: Path, rc: int, wall: float):
        self.out_path = out_path
        self.rc = rc
        self.wall = wall
        self.generated = self.distinct = 0
        self.errors = []
        completed = finished = False
        self.tail = []
        with open(out_path, errors="replace") as f:
            for line in f:
                if line.startswith('"'):
                    continue
                m = _STATS.search(line)
                if m:
                    self.generated, self.distinct = int(m.group(1)), int(m.group(2))
                if line.startswith("Error:"):
                    self.errors.append(line.strip())
                if "Model checking completed. No error has been found." in line:
                    completed = True
                if line.startswith("Finished in"):
                    finished = True
                self.tail.append(line.rstrip("\n"))
                if len(self.tail) > 400:
                    del self.tail[:200]
        self.ok = (completed or finished) and not self.errors and rc == 0

    @property
    def out(self):
        return Path(self.out_path).read_text(errors="replace")

    def json_lines(self):
        """lines printed by PrintT(ToJson(..)): TLA+ string literals holding JSON"""
        with open(self.out_path, errors="replace") as f:
            for line in f:
                if line.startswith('"{') or line.startswith('"['):
                    try:
                        yield json.loads(json.loads(line))
                    except Exception:  # noqa: BLE001
                        continue

    def tuples(self, tag):
        """PrintT(<<"TAG", ...>>) lines, possibly spanning several lines; returned as raw text"""
        txt = self.out
        res = []
        i = 0
        needle = '<<"' + tag + '"'
        while True:
            j = txt.find(needle, i)
            if j < 0:
                break
            depth = 0
            k = j
            while k < len(txt):
                if txt.startswith("<<", k):
                    depth += 1
                    k += 2
                    continue
                if txt.startswith(">>", k):
                    depth -= 1
                    k += 2
                    if depth == 0:
                        break
                    continue
                k += 1
            res.append(" ".join(txt[j:k].split()))
            i = k
        return res

    def cleanup(self):
        try:
            os.unlink(self.out_path)
        except OSError:
            pass


def run_tlc(module: str, cfg: Path, *, workers=1, tag="run", simulate=None, depth=None, seed=None,
            timeout=3600, env=None, coverage=False, extra=(), cwd=None, heap="8g", out_path=None) -> TLCResult:
    """module: file name inside spec/ (run with cwd = spec/ so EXTENDS finds siblings)."""
    uniq = f"{tag}-{os.getpid()}-{time.time_ns()}"
    meta = WORK / "tlc" / uniq
    meta.mkdir(parents=True, exist_ok=True)
    out_path = Path(out_path) if out_path else WORK / "tlc" / f"{uniq}.out"
    cmd = ["java", "-XX:+UseParallelGC", f"-Xmx{heap}", f"-Djava.io.tmpdir={meta}", "-cp", JAR, "tlc2.TLC", "-workers", str(workers),
           "-metadir", str(meta), "-noGenerateSpecTE", "-config", str(cfg)]
    if simulate:
        cmd += ["-simulate", simulate]
    if depth:
        cmd += ["-depth", str(depth)]
    if seed is not None:
        cmd += ["-seed", str(seed)]
    if coverage:
        cmd += ["-coverage", "1"]
    cmd += list(extra)
    cmd.append(module)
    e = dict(os.environ)
    if env:
        e.update(env)
    t0 = time.time()
    try:
        with open(out_path, "w") as fo:
            p = subprocess.run(cmd, cwd=str(cwd or SPEC), env=e, stdout=fo, stderr=subprocess.STDOUT, timeout=timeout)
    except subprocess.TimeoutExpired as ex:
        raise TLCError(f"TLC timeout after {timeout}s: {' '.join(cmd)}") from ex
    finally:
        shutil.rmtree(meta, ignore_errors=True)
    return TLCResult(out_path, p.returncode, time.time() - t0)
