"""Binding self-test (`./check --selftest`): records taken from the real library are accepted by TLC as they are, and
each of a list of single-field corruptions of such a record is REJECTED with the clause that guards that field.
It exercises the whole path a verdict takes (record -> JSON -> TLC module -> MISMATCH line -> parser), so a validator
that has gone vacuous (a clause that no longer constrains anything, a parser that drops lines) fails here, not silently.
Exit 0: all as expected; exit 2 otherwise (this is a test of the machinery, never a verdict about /repo)."""
from __future__ import annotations

import copy
import sys
import tempfile

from . import core, flavours, pipeline as P, queries as Q, trace
from . import lock as L

ST3 = {"n": 3, "par": [0, 1, 0], "kids": [[2], [], []], "top": [1, 3], "dat": [1, 2, 2], "did": [1, 2, 2],
       "knd": [0, 0, 0], "meta": [[0], [0], [0]], "typed": False}


def _clauses(mism, rid):
    return {m["clause"].split(":")[0] for m in mism if m["id"] == rid}


def core_cases():
    fl = flavours.make("str")
    recs, expect = [], {}

    def step(op, rid, mutate=None, want=None, with_src=False):
        b = core.build(ST3, fl)
        src = core.build(P.src_state(fl, 1, 0), fl, 1, name="src") if with_src else None
        r = trace.run_step(b, op, rid, src, 4, pre_st=core.norm_state(ST3))
        r = copy.deepcopy(r)
        if mutate:
            mutate(r)
        recs.append(r)
        expect[rid] = want

    add = {"name": "add_child", "p": 1, "d": 1, "xid": 0, "k": 0, "pos": {"t": "true", "v": 0}}
    dup = {"name": "add_child", "p": 0, "d": 2, "xid": 0, "k": 0, "pos": {"t": "none", "v": 0}}
    rem = {"name": "remove", "x": 1, "keep": False, "clones": False}
    cpy = {"name": "add_tree", "p": 2, "deep": True, "pos": {"t": "none", "v": 0}}
    step(add, 1, None, None)
    step(dup, 2, None, None)
    step(rem, 3, None, None)
    step(cpy, 4, None, None, with_src=True)
    step(add, 11, lambda r: r["post"]["kids"][0].reverse(), "post.kids")
    step(add, 12, lambda r: r["obs"].__setitem__("count", r["obs"]["count"] + 1), "count")
    step(add, 13, lambda r: r.__setitem__("status", "ValueError"), "status")
    step(dup, 14, lambda r: r.__setitem__("status", "ValueError"), "dup_not_refused")
    step(dup, 15, lambda r: r["post"]["top"].reverse(), "changed_on_error")
    step(rem, 16, lambda r: r["obs"]["by_nid_gone"][0].__setitem__(1, 1), "removed_still_found")
    step(add, 17, lambda r: r["obs"]["by_data"][0]["all"].append(3), "find_by_data")
    step(cpy, 18, lambda r: r.__setitem__("srcpost", "changed"), "source_changed", with_src=True)
    step(cpy, 19, lambda r: r["post"]["dat"].__setitem__(-1, 1), "copy_not_faithful", with_src=True)
    step(add, 20, lambda r: r["post"]["did"].__setitem__(0, 2), "sibling_unique")
    step(add, 21, lambda r: r["obs"]["iter"].reverse(), "iteration")
    mism, checked, _ = P.validate_records(recs, defdid=fl.defdid, mk=1)
    return "TraceCore", recs, expect, mism, checked == len(recs)


def query_cases():
    fl = flavours.make("str")
    st = {k: ST3[k] for k in ("n", "par", "kids", "top", "dat", "did", "knd", "meta", "typed")}
    recs, expect = [], {}

    def rec(rid, mutate=None, want=None):
        b = core.build(st, fl)
        obs = copy.deepcopy(Q.obs_c10(Q.Ctx(b, st)))
        if mutate:
            mutate(obs)
        recs.append({"id": rid, "fl": "str", "st": st, "obs": obs})
        expect[rid] = want

    def first(obs, q):
        return next(o for o in obs if o["q"] == q)

    rec(1)
    rec(11, lambda obs: first(obs, "rel")["r"]["v"].__setitem__("depth", 7), "rel.depth")
    rec(12, lambda obs: first(obs, "rel")["r"]["v"].__setitem__("index", 5), "rel.index")
    mism, checked, _ = P.validate_records(recs, module="TraceQuery.tla", tag="selfq", shards=1)
    return "TraceQuery", recs, expect, mism, checked == sum(len(r["obs"]) for r in recs)


def lock_cases():
    from . import checks_lock as CL
    from .findings import Report
    rep = Report("C18", "selftest", 0)
    hs = CL.schedules(rep, ["w1"], ["r1"], True, "selftest schedules", limit=3)
    tmp = tempfile.mkdtemp(prefix="nutree-selftest-")
    recs, expect = [], {}
    try:
        base = L.run_trace("save_stream", schedule=hs[0], nested=True, tmpdir=tmp, trace_id=1)
    finally:
        import shutil
        shutil.rmtree(tmp, ignore_errors=True)
    recs.append(base)
    expect[1] = None

    def variant(rid, mutate, want):
        t = copy.deepcopy(base)
        t["id"] = rid
        mutate(t["events"])
        recs.append(t)
        expect[rid] = want

    def drop(events, t, a):
        i = next(k for k, e in enumerate(events) if e["t"] == t and e["a"] == a)
        del events[i]

    variant(11, lambda ev: drop(ev, "r1", "acq"), "read_without_lock")
    variant(12, lambda ev: drop(ev, "w1", "rel"), "acquired_while_held_by_other")
    variant(13, lambda ev: next(e for e in ev if e["a"] == "snap").__setitem__("v", 1), "snapshot_shows_uncommitted_state")
    variant(14, lambda ev: next(e for e in ev if e["a"] == "uses" and e["t"] == "r1").__setitem__("v", 2),
            "threads_synchronise_on_different_lock_objects")
    mism, checked, _ = P.validate_records(recs, module="TraceLock.tla", tag="selflk", shards=1, nutree_consts=False)
    return "TraceLock", recs, expect, mism, checked == sum(len(t["events"]) for t in recs)


def main() -> int:
    bad = 0
    for case in (core_cases, query_cases, lock_cases):
        name, recs, expect, mism, counted = case()
        if not counted:
            print(f"SELFTEST {name}: the validator did not account for every record")
            bad += 1
        for rid, want in sorted(expect.items()):
            got = _clauses(mism, rid)
            if want is None:
                ok = not got
                print(f"SELFTEST {name} #{rid}: unmodified record {'accepted' if ok else 'REJECTED: ' + str(sorted(got))}")
            else:
                ok = any(c == want or c.startswith(want) for c in got)
                print(f"SELFTEST {name} #{rid}: corrupted field -> expected clause {want}: "
                      f"{'reported' if ok else 'NOT reported, got ' + str(sorted(got))}")
            bad += not ok
    print("SELFTEST", "passed" if not bad else f"FAILED ({bad})")
    return 0 if not bad else 2


if __name__ == "__main__":
    sys.exit(main())
