"""Binding between the abstract tree state of spec/Nutree.tla and real nutree objects.

build()    abstract state  -> real tree, through the public API only
project()  real tree       -> abstract state + lookup observations, through the public read API
execute()  operation record (as enumerated by MC_Core!Ops) -> public API call
compare()  expected result (computed by TLC from Nutree!Apply) vs. observed result

The same projection is used for spec->code replay and for the code->spec traces.
"""
from __future__ import annotations

import warnings

from nutree import IterMethod, Tree  # noqa: F401
from nutree.common import SelectBranch, SkipBranch, StopTraversal

from .flavours import Flavour

NODE_CAP = 400

META_KEYS = {1: "m1", 2: "m2"}
META_KEY_IDS = {v: k for k, v in META_KEYS.items()}


def seq(x):
    """TLC's ToJson renders an empty tuple/function as {} or []: normalise."""
    if isinstance(x, dict) and not x:
        return []
    return x


def norm_state(st: dict) -> dict:
    st = dict(st)
    for k in ("par", "kids", "top", "dat", "did", "knd", "meta", "reg", "idx"):
        if k in st:
            st[k] = seq(st[k])
    st["kids"] = [seq(k) for k in st["kids"]]
    st["meta"] = [seq(m) for m in st.get("meta", [])]
    if "idx" in st:
        st["idx"] = [[e[0], seq(e[1])] for e in st["idx"]]
    return st


# ----------------------------------------------------------------------------------------------
class Built:
    """A real tree together with the binding model id -> Node object (index 0 unused)."""

    def __init__(self, tree, nodes, fl: Flavour, mk=1):
        self.tree = tree
        self.nodes = nodes  # nodes[i] = Node for model id i (1-based), nodes[0] = None
        self.fl = fl
        self.mk = mk  # number of meta keys in the model
        self.meta_dicts = {}  # update_meta(): the caller keeps and re-uses its dict objects
        self.grave = []  # handles of removed nodes the caller still holds (trace.snapshot() collects them)
        self.nid_seq = 0   # explicit node_ids handed out by add_child ops with op["nid"]
        self.last_nid = None

    def node(self, i):
        return self.tree if i == 0 else self.nodes[i]

    def parent_obj(self, i):
        """object to call add_child on for model parent i"""
        return self.tree if i == 0 else self.nodes[i]


def build(st: dict, fl: Flavour, mk=1, name=None, node_ids=None, order="pre") -> Built:
    """Create a real tree for abstract state `st` (ids must be in pre-order, all live).
    node_ids: optional {model id: explicit node_id} (custom node keys)
    order: "pre" creates the nodes depth-first; "level" level by level (creation order differs from pre-order)"""
    st = norm_state(st)
    tree = fl.new_tree(name)
    n = st["n"]
    nodes = [None] * (n + 1)

    def add(parent_obj, i, recurse=True):
        d = st["dat"][i - 1]
        mdid = st["did"][i - 1]
        kw = {}
        if mdid != fl.model_default_did(d):
            kw["data_id"] = fl.real_did(mdid)
        if fl.typed:
            kw["kind"] = fl.kind(st["knd"][i - 1])
        if node_ids and i in node_ids:
            kw["node_id"] = node_ids[i]
        elif hasattr(fl, "node_id_for") and name != "src":
            kw["node_id"] = fl.node_id_for(i)
        node = parent_obj.add(fl.data(d), **kw)
        nodes[i] = node
        m = st["meta"][i - 1] if st.get("meta") else []
        for k, v in enumerate(m, 1):
            if v:
                node.set_meta(META_KEYS[k], v)
        if recurse:
            for c in st["kids"][i - 1]:
                add(node, c)

    if order == "level":
        level = [(tree, i) for i in st["top"]]
        while level:
            nxt = []
            for parent_obj, i in level:
                add(parent_obj, i, recurse=False)
                nxt += [(nodes[i], c) for c in st["kids"][i - 1]]
            level = nxt
    else:
        for i in st["top"]:
            add(tree, i)
    return Built(tree, nodes, fl, mk)


# ----------------------------------------------------------------------------------------------
class Unprojectable(Exception):
    pass


def project(b: Built, probe_dids=(), pre_nids=None) -> dict:
    """Abstract state of b.tree.  Nodes already bound keep their id; unknown nodes are numbered
    after them in pre-order (and appended to b.nodes).  Bound nodes no longer in the tree get
    par = -1.  Only public read API is used."""
    tree, fl = b.tree, b.fl
    ident = {id(nd): i for i, nd in enumerate(b.nodes) if nd is not None}
    order = []  # pre-order list of node objects
    seen = set()
    stack = [iter(list(tree.children))]
    while stack:
        try:
            nd = next(stack[-1])
        except StopIteration:
            stack.pop()
            continue
        if id(nd) in seen:
            raise Unprojectable("node reachable twice (shared or cycle)")
        seen.add(id(nd))
        order.append(nd)
        if len(order) > NODE_CAP:
            raise Unprojectable("more than %d reachable nodes" % NODE_CAP)
        stack.append(iter(list(nd.children)))
    for nd in order:
        if id(nd) not in ident:
            b.nodes.append(nd)
            ident[id(nd)] = len(b.nodes) - 1
    n = len(b.nodes) - 1
    live = {ident[id(nd)] for nd in order}

    def idof(nd):
        if nd is None:
            return 0
        return ident.get(id(nd), -2)  # -2: object that is not a known node of this tree

    par = [-1] * n
    kids = [[] for _ in range(n)]
    dat = [0] * n
    did = [0] * n
    knd = [0] * n
    meta = [[0] * b.mk for _ in range(n)]
    own = [0] * n
    for nd in order:
        i = ident[id(nd)]
        par[i - 1] = idof(nd.parent)
        kids[i - 1] = [idof(c) for c in nd.children]
        dat[i - 1] = fl.data_index(nd.data)
        did[i - 1] = fl.model_did(nd.data_id)
        knd[i - 1] = fl.kind_id(nd)
        m = nd.meta
        if m is not None:
            if len(m) == 0:
                meta[i - 1] = [-1] * b.mk  # an empty dict instead of None
            else:
                row = [0] * b.mk
                for k, v in m.items():
                    if hasattr(fl, "meta_key_id"):      # recorder flavour: dynamic registries
                        ki, v = fl.meta_key_id(k), fl.meta_val(v)
                    else:
                        ki = META_KEY_IDS.get(k)
                    if ki is None or ki > b.mk or not isinstance(v, int):
                        row = [-2] * b.mk
                        break
                    row[ki - 1] = v
                meta[i - 1] = row
        own[i - 1] = 1 if nd.tree is tree else 0
    st = {
        "n": n,
        "par": par,
        "kids": kids,
        "top": [idof(c) for c in tree.children],
        "dat": dat,
        "did": did,
        "knd": knd,
        "meta": meta,
        "typed": fl.typed,
    }
    # ---- lookup observations (C01 count/ids, C02 index exactness)
    obs = {"own": own, "count": tree.count, "len": len(tree), "count_unique": tree.count_unique}
    obs["iter"] = [idof(x) for x in tree]
    by_did = []
    for md in probe_dids:
        rd = fl.real_did(md)
        found = tree.find_all(data_id=rd)
        by_did.append([md, sorted(idof(x) for x in found)])
    obs["by_did"] = by_did
    by_nid = []
    for nd in order:
        r = tree.find_first(node_id=nd.node_id)
        by_nid.append(1 if r is nd else 0)
    obs["by_nid_live"] = by_nid
    gone = []
    if pre_nids:
        for i, nid in pre_nids.items():
            if i not in live and nid is not None:
                r = tree.find_first(node_id=nid)
                gone.append([i, 0 if r is None else 1])
    obs["by_nid_gone"] = gone
    return {"st": st, "obs": obs}


def node_ids(b: Built):
    return {i: nd.node_id for i, nd in enumerate(b.nodes) if nd is not None}


# ----------------------------------------------------------------------------------------------
def _pos_arg(b: Built, pos):
    t = pos["t"]
    if t == "none":
        return None
    if t == "true":
        return True
    if t == "false":
        return False
    if t == "idx":
        return pos["v"]
    if t == "other":
        return "zz"       # neither bool, int nor node
    if t == "node":
        return b.nodes[pos["v"]]
    raise ValueError(t)


VERDICTS = {
    "T": lambda: True,
    "F": lambda: False,
    "N": lambda: None,
    "skip": lambda: SkipBranch(),
    "skipKeep": lambda: SkipBranch(and_self=False),
    "select": lambda: SelectBranch(),
    "stop": lambda: StopTraversal(),
}


def make_predicate(b: Built, verdicts, called=None, raise_form=False, class_form=False):
    """predicate answering node i with verdicts[i-1]; records the ids it was called on"""
    ident = {id(nd): i for i, nd in enumerate(b.nodes) if nd is not None}

    def pred(node):
        i = ident.get(id(node), -2)
        if called is not None:
            called.append(i)
        v = verdicts[i - 1] if 1 <= i <= len(verdicts) else "F"
        r = VERDICTS[v]()
        if isinstance(r, Exception):
            if raise_form:
                raise r
            if class_form and v in ("skip", "select", "stop"):
                return type(r)
        return r

    return pred


def execute(b: Built, op: dict, src: Built | None = None, foreign_tree=None):
    """Perform op through the public API.  Returns (status, returned object)."""
    fl = b.fl
    name = op["name"]
    kind_kw = {}

    def kk(k):
        if fl.typed and k == -1:
            return {"kind": 123}      # an unsupported type
        if fl.typed and k:
            return {"kind": fl.kind(k)}
        return {}

    def xid_kw(x):
        if x == -1:
            return {"data_id": [1]}      # an unhashable value
        return {"data_id": fl.real_did(x)} if x else {}

    try:
        with warnings.catch_warnings():
            warnings.simplefilter("ignore")
            b.last_nid = None
            if name == "add_child":
                nid_kw = {}
                if op.get("nid"):      # the caller chooses the new node's node_id (a fresh one)
                    b.nid_seq += 1
                    b.last_nid = 7_000_000 + b.nid_seq      # (node ids are ints: Node.__init__ applies int())
                    nid_kw = {"node_id": b.last_nid}
                r = b.node(op["p"]).add_child(
                    fl.data(op["d"]), before=_pos_arg(b, op["pos"]), **xid_kw(op["xid"]), **kk(op["k"]), **nid_kw
                )
            elif name == "add_child_nid":
                r = b.node(op["p"]).add_child(fl.data(op["d"]), node_id=b.nodes[op["x"]].node_id)
            elif name == "append_child":
                r = b.node(op["p"]).append_child(fl.data(op["d"]), **xid_kw(op["xid"]), **kk(op["k"]))
            elif name == "prepend_child":
                r = b.node(op["p"]).prepend_child(fl.data(op["d"]), **xid_kw(op["xid"]), **kk(op["k"]))
            elif name == "prepend_sibling":
                r = b.nodes[op["x"]].prepend_sibling(fl.data(op["d"]), **xid_kw(op["xid"]))
            elif name == "append_sibling":
                r = b.nodes[op["x"]].append_sibling(fl.data(op["d"]), **xid_kw(op["xid"]))
            elif name == "add_node":
                sb = src if op["src"] == "S" else b
                via = op.get("via", "add_child")
                if via == "copy_to":
                    r = sb.nodes[op["x"]].copy_to(
                        b.node(op["p"]), add_self=True, before=_pos_arg(b, op["pos"]), deep=op["deep"]
                    )
                else:
                    idkw = {}
                    if op.get("nid"):
                        b.nid_seq += 1
                        b.last_nid = 7_000_000 + b.nid_seq
                        idkw["node_id"] = b.last_nid
                    if op.get("xidc"):
                        idkw["data_id"] = fl.real_did(op["xidc"])
                    r = b.node(op["p"]).add_child(
                        sb.nodes[op["x"]], before=_pos_arg(b, op["pos"]), deep=op["deep"], **kk(op["k"]), **idkw
                    )
            elif name == "add_tree":
                r = b.node(op["p"]).add_child(src.tree, before=_pos_arg(b, op["pos"]), deep=op["deep"])
            elif name == "add_empty_tree":
                r = b.node(op["p"]).add_child(fl.new_tree(), before=_pos_arg(b, op["pos"]), deep=op["deep"])
            elif name == "empty_tree_copy_to":
                r = fl.new_tree().copy_to(b.node(op["p"]), deep=op["deep"])
            elif name == "tree_copy_to":
                r = src.tree.copy_to(b.node(op["p"]), deep=op["deep"])
            elif name == "copy_children_to":
                sb = src if op["src"] == "S" else b
                r = sb.nodes[op["x"]].copy_to(b.node(op["p"]), add_self=False, deep=op["deep"])
            elif name == "move_to":
                r = b.nodes[op["x"]].move_to(b.node(op["p"]), before=_pos_arg(b, op["pos"]))
            elif name == "move_foreign":
                r = b.nodes[op["x"]].move_to(foreign_tree if foreign_tree is not None else fl.new_tree())
            elif name == "remove":
                r = b.nodes[op["x"]].remove(keep_children=op["keep"], with_clones=op["clones"])
            elif name == "remove_children":
                r = b.nodes[op["p"]].remove_children()
            elif name == "clear":
                r = b.tree.clear()
            elif name == "del":
                key = op["key"]
                if key["t"] == "data":
                    del b.tree[fl.data(key["v"])]
                elif key["t"] == "nid":
                    del b.tree[b.nodes[key["v"]].node_id]
                elif key["t"] == "did":
                    del b.tree[fl.real_did(key["v"])]
                elif key["t"] == "node":
                    del b.tree[b.nodes[key["v"]]]
                r = None
            elif name == "sort_children":
                rank = seq(op["rank"])
                ident_rank = all(rank[i] == i + 1 for i in range(len(rank)))
                if ident_rank and fl.name_sorted:
                    key = None
                else:
                    key = lambda nd: rank[fl.data_index(nd.data) - 1]  # noqa: E731
                tgt = b.node(op["p"])
                if op["p"] == 0:
                    r = b.tree.sort(key=key, reverse=op["rev"], deep=op["deep"])
                else:
                    r = tgt.sort_children(key=key, reverse=op["rev"], deep=op["deep"])
            elif name == "set_data":
                kw = {}
                if op["xid"] == -1:
                    kw["data_id"] = [1]      # an unhashable value
                elif op["xid"]:
                    kw["data_id"] = fl.real_did(op["xid"])
                if op["wc"] != "none":
                    kw["with_clones"] = op["wc"] == "true"
                r = b.nodes[op["x"]].set_data(fl.data(op["d"]) if op["d"] else None, **kw)
            elif name == "rename":
                # rename() takes a new *string*; for non-string data it must refuse
                newname = fl.data(op["d"]) if fl.is_str else str(fl.data(op["d"]))
                r = b.nodes[op["x"]].rename(newname)
            elif name == "set_meta":
                r = b.nodes[op["x"]].set_meta(META_KEYS[op["key"]], op["val"] if op["val"] else None)
            elif name == "clear_meta":
                r = b.nodes[op["x"]].clear_meta(META_KEYS[op["key"]] if op["key"] else None)
            elif name == "update_meta":
                key = tuple(seq(op["m"]))
                if key not in b.meta_dicts:   # one dict object per content, passed again and again (aliasing!)
                    b.meta_dicts[key] = {META_KEYS[k]: v for k, v in enumerate(key, 1) if v}
                m = b.meta_dicts[key]
                before = dict(m)
                r = b.nodes[op["x"]].update_meta(m, replace=op["replace"])
                if m != before:
                    raise RuntimeError("harness: update_meta() modified the dict passed by the caller")
            elif name == "filter":
                pred = make_predicate(b, seq(op["v"]), raise_form=op.get("raise", False))
                r = b.node(op["p"]).filter(pred)
            elif name == "stale":
                r = _stale(b, op)
            else:
                raise RuntimeError(f"harness: unknown op {name}")
        return "ok", r
    except RuntimeError as e:
        if str(e).startswith("harness:"):
            raise
        return type(e).__name__, None
    except Exception as e:  # noqa: BLE001  (every escaping exception is an observation)
        return type(e).__name__, None


STALE_WHATS = ("add", "prepend_sibling", "append_sibling", "move_to_root", "move_to_node", "move_into", "remove",
               "remove_keep", "remove_children", "set_data", "sort", "set_meta", "add_node_into")


def _stale(b: Built, op: dict):
    """a call through the handle of a node that was removed from the tree earlier (op.g: index into b.grave)"""
    if not b.grave:
        raise RuntimeError("harness: stale op without a removed node")
    g = b.grave[op["g"] % len(b.grave)]
    fl, what = b.fl, op["what"]
    live = b.nodes[op["x"]] if op.get("x") else b.tree
    if what == "add":
        g.add_child(fl.data(op["d"]))
    elif what == "prepend_sibling":
        g.prepend_sibling(fl.data(op["d"]))
    elif what == "append_sibling":
        g.append_sibling(fl.data(op["d"]))
    elif what == "move_to_root":
        g.move_to(b.tree)
    elif what == "move_to_node":
        g.move_to(live)
    elif what == "move_into":
        if live is b.tree:
            raise ValueError("no live node to move")
        live.move_to(g)
    elif what == "remove":
        g.remove()
    elif what == "remove_keep":
        g.remove(keep_children=True)
    elif what == "remove_children":
        g.remove_children()
    elif what == "set_data":
        g.set_data(fl.data(op["d"]))
    elif what == "sort":
        g.sort_children()
    elif what == "set_meta":
        g.set_meta(META_KEYS[1], 1)
    elif what == "add_node_into":
        if live is b.tree:
            raise ValueError("no live node to copy")
        g.add_child(live)
    else:
        raise RuntimeError(f"harness: unknown stale call {what}")
    return None


def op_applicable(op: dict, fl: Flavour) -> bool:
    """ops whose argument shape does not exist for this flavour (e.g. rename on non-strings)"""
    if op["name"] == "rename":
        return op["isstr"] == fl.is_str
    return True


# ----------------------------------------------------------------------------------------------
def ret_id(b: Built, r):
    if r is None:
        return 0
    for i, nd in enumerate(b.nodes):
        if nd is r:
            return i
    return -2


RET_NODE_OPS = {"add_child", "append_child", "prepend_child", "prepend_sibling", "append_sibling", "add_node"}


def compare(op, exp, status, ret, post, pre_st) -> list:
    """Return the list of failing clauses (empty = agreement).  exp is ResJson from TLC."""
    fails = []
    errs = seq(exp["errs"])
    if exp["ok"]:
        if status != "ok":
            fails.append(("status", f"expected ok, got {status}"))
    else:
        if status == "ok":
            fails.append(("status", f"expected one of {errs}, got ok"))
        elif "*" not in errs and status not in errs:
            fails.append(("status", f"expected one of {errs}, got {status}"))
    if isinstance(post, str):
        fails.append(("post", post))
        return fails
    est = norm_state(exp["st"])
    st = post["st"]
    obs = post["obs"]
    n = est["n"]
    if st["n"] != n:
        fails.append(("post.n", f"expected {n} node ids, observed {st['n']}"))
    else:
        if st["top"] != est["top"]:
            fails.append(("post.top", f"{est['top']} vs {st['top']}"))
        if st["par"] != est["par"]:
            fails.append(("post.par", f"{est['par']} vs {st['par']}"))
        for i in range(n):
            if est["par"][i] == -1:
                continue
            for f in ("kids", "dat", "did", "knd", "meta"):
                if st[f][i] != est[f][i]:
                    fails.append((f"post.{f}", f"node {i+1}: expected {est[f][i]}, observed {st[f][i]}"))
                    break
    if status == "ok" and exp["ok"] and op["name"] in RET_NODE_OPS and exp["ret"] != ret:
        fails.append(("ret", f"expected node {exp['ret']}, got {ret}"))
    # lookups against the spec's own index variables
    live = [i + 1 for i in range(len(est["par"])) if est["par"][i] != -1]
    if obs["count"] != len(est["reg"]) or obs["len"] != len(est["reg"]):
        fails.append(("obs.count", f"expected {len(est['reg'])}, count={obs['count']} len={obs['len']}"))
    if obs["count_unique"] != len(est["idx"]):
        fails.append(("obs.count_unique", f"expected {len(est['idx'])}, got {obs['count_unique']}"))
    eidx = {e[0]: sorted(e[1]) for e in est["idx"]}
    for md, ids in obs["by_did"]:
        if sorted(ids) != eidx.get(md, []):
            fails.append(("obs.by_did", f"data_id {md}: expected {eidx.get(md, [])}, got {ids}"))
            break
    if not all(obs["by_nid_live"]) or len(obs["by_nid_live"]) != len(live):
        fails.append(("obs.by_nid", "find_first(node_id=) does not return every live node"))
    if any(g[1] for g in obs["by_nid_gone"]):
        fails.append(("obs.by_nid_gone", f"removed node still found by node_id: {obs['by_nid_gone']}"))
    if not all(obs["own"][i - 1] for i in live if i <= len(obs["own"])):
        fails.append(("obs.own", "reachable node does not report the tree as owner"))
    return fails
