"""C13, fault half: the k-th invocation of a user callback raises, for every k, for every operation taking one."""
from __future__ import annotations

import io

from nutree import IterMethod

from . import core, flavours, trace


class Boom(Exception):
    pass


class Counter:
    """wraps a callback: counts invocations, raises Boom at the k-th (k = 0: never)"""

    def __init__(self, fn, k=0):
        self.fn = fn
        self.k = k
        self.n = 0

    def __call__(self, *a, **kw):
        self.n += 1
        if self.n == self.k:
            raise Boom(f"invocation {self.n}")
        return self.fn(*a, **kw)


# target name -> (readonly, runner(b, cb) ) ; cb is the (possibly raising) callback
def _targets(st, fl):
    n = st["n"]
    live = list(range(1, n + 1))
    T = {}

    def add(name, readonly, run, proto):
        T[name] = (readonly, run, proto)

    ident = lambda node, data: data  # noqa: E731
    add("save(mapper)", True, lambda b, cb: b.tree.save(io.StringIO(), mapper=cb, key_map=False), ident)
    add("to_dict_list(mapper)", True, lambda b, cb: b.tree.to_dict_list(mapper=cb), ident)
    add("to_dot(node_mapper)", True, lambda b, cb: list(b.tree.to_dot(node_mapper=cb)), lambda node, data: None)
    add("to_dot(edge_mapper)", True, lambda b, cb: list(b.tree.to_dot(edge_mapper=cb)), lambda node, data: None)
    add("to_mermaid(node_mapper)", True,
        lambda b, cb: b.tree.to_mermaid_flowchart(io.StringIO(), node_mapper=cb), lambda node: node.name)
    add("find_all(match)", True, lambda b, cb: b.tree.find_all(match=cb), lambda node: True)
    add("find_first(match)", True, lambda b, cb: b.tree.find_first(match=cb), lambda node: False)
    add("visit(pre)", True, lambda b, cb: b.tree.visit(cb), lambda node, memo: None)
    add("visit(level)", True, lambda b, cb: b.tree.visit(cb, method=IterMethod.LEVEL_ORDER), lambda node, memo: None)
    add("visit(post)", True, lambda b, cb: b.tree.visit(cb, method=IterMethod.POST_ORDER), lambda node, memo: None)
    add("format(repr)", True, lambda b, cb: b.tree.format(repr=cb), lambda node: node.name)
    add("filtered(predicate)", True, lambda b, cb: b.tree.filtered(cb), lambda node: True)
    add("copy(predicate)", True, lambda b, cb: b.tree.copy(predicate=cb), lambda node: node.name != "zzz")
    add("filter(predicate)", False, lambda b, cb: b.tree.filter(cb), lambda node: len(node.children) % 2 == 0)
    add("filter(predicate=False)", False, lambda b, cb: b.tree.filter(cb), lambda node: False)
    add("sort(key)", False, lambda b, cb: b.tree.sort(key=cb, reverse=True), lambda node: node.name)
    leaves = [i for i in live if not st["kids"][i - 1]]
    items = [{"data": 3, "children": [{"data": 4}, {"data": 5}]}, {"data": 4}, {"data": 5, "children": [{"data": 3}]}]
    for i in leaves[:2]:
        # from_dict() below a node of an existing tree; the mapper rebuilds the data object of each item
        add(f"node{i}.from_dict(mapper)", False,
            lambda b, cb, i=i: b.nodes[i].from_dict(items, mapper=cb), lambda parent, item: fl.data(item["data"]))
    for i in live[:3]:
        add(f"node{i}.filter(predicate)", False, lambda b, cb, i=i: b.nodes[i].filter(cb), lambda node: False)
        add(f"node{i}.sort_children(key)", False, lambda b, cb, i=i: b.nodes[i].sort_children(key=cb, deep=True),
            lambda node: node.name)
        add(f"node{i}.copy(predicate)", True, lambda b, cb, i=i: b.nodes[i].copy(predicate=cb), lambda node: True)
        add(f"node{i}.visit", True, lambda b, cb, i=i: b.nodes[i].visit(cb, add_self=True), lambda node, memo: None)
    return T


def _calc_targets(st, fl):
    """operations that invoke the tree's calc_data_id callback (flavour with a callback)"""
    n = st["n"]
    T = {}
    for p in [0] + list(range(1, min(n, 2) + 1)):
        T[f"add_child@{p}"] = (False, lambda b, p=p: b.node(p).add_child(fl.data(3)))
    for i in range(1, min(n, 3) + 1):
        T[f"set_data@{i}"] = (False, lambda b, i=i: b.nodes[i].set_data(fl.data(3), with_clones=False))
        T[f"append_sibling@{i}"] = (False, lambda b, i=i: b.nodes[i].append_sibling(fl.data(3)))
    leaves = [i for i in range(1, n + 1) if not st["kids"][i - 1]]
    for i in leaves[:2]:
        T[f"from_dict@{i}"] = (False, lambda b, i=i: b.nodes[i].from_dict(
            [{"data": fl.data(3), "children": [{"data": fl.data(4)}]}, {"data": fl.data(4)}]))
    T["find_all(data)"] = (True, lambda b: b.tree.find_all(fl.data(1)))
    T["contains"] = (True, lambda b: fl.data(2) in b.tree)
    T["getitem"] = (True, lambda b: b.tree[fl.data(1)])
    T["save"] = (True, lambda b: b.tree.save(io.StringIO()))
    return T


def fault_records(st, flname, base_id, maxd=3):
    fl = flavours.make(flname)
    recs = []
    rid = base_id
    pre = {x: st[x] for x in ("n", "par", "kids", "top", "dat", "did", "knd", "meta", "typed")}
    for name, (readonly, run, proto) in _targets(st, fl).items():
        b = core.build(pre, fl)
        c0 = Counter(proto, 0)
        try:
            run(b, c0)
        except Exception:  # noqa: BLE001
            pass
        for k in range(1, c0.n + 1):
            b = core.build(pre, fl)
            pre_nids = core.node_ids(b)
            ck = Counter(proto, k)
            try:
                run(b, ck)
                status = "ok"
            except Boom:
                status = "Boom"
            except Exception as e:  # noqa: BLE001
                status = type(e).__name__
            rid += 1
            recs.append(_record(b, rid, pre, pre_nids, name, k, readonly, status, flname, maxd))
    if fl.calc_data_id() is not None:
        for name, (readonly, run) in _calc_targets(st, fl).items():
            for phase in ("count", "fault"):
                pass
            # count invocations of the id callback
            b = core.build(pre, fl)
            hook = b.tree._calc_data_id_hook
            c0 = Counter(hook, 0)
            b.tree._calc_data_id_hook = c0
            try:
                run(b)
            except Exception:  # noqa: BLE001
                pass
            for k in range(1, c0.n + 1):
                b = core.build(pre, fl)
                pre_nids = core.node_ids(b)
                ck = Counter(b.tree._calc_data_id_hook, k)
                b.tree._calc_data_id_hook = ck
                try:
                    run(b)
                    status = "ok"
                except Boom:
                    status = "Boom"
                except Exception as e:  # noqa: BLE001
                    status = type(e).__name__
                b.tree._calc_data_id_hook = ck.fn
                rid += 1
                recs.append(_record(b, rid, pre, pre_nids, "calc_data_id:" + name, k, readonly, status, flname, maxd))
    return recs


def _record(b, rid, pre, pre_nids, name, k, readonly, status, flname, maxd):
    rec = {"id": rid, "fl": flname, "pre": pre, "op": {"name": "fault", "target": name, "k": k, "readonly": readonly},
           "status": status}
    try:
        proj = core.project(b, trace.probe_dids(b.fl, maxd), pre_nids)
        rec["post"] = proj["st"]
        rec["obs"] = proj["obs"]
        rec["obs"].update(trace.lookups(b, proj["st"], maxd))
        rec["ret"] = 0
    except core.Unprojectable as e:
        rec["bad"] = str(e)
    except Exception as e:  # noqa: BLE001
        rec["bad"] = type(e).__name__
    return rec
