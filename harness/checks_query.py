"""Checks for the read-only API: C06 traversal, C09 searches, C10 relationships, C15 typed queries, C16 format().

TLC enumerates the states (MC_Shapes: every ordered forest, optionally with kinds; MC_Core: labelled
forests with clones) and checks the laws of NutreeQueries on them; the harness builds each state in
the real library, runs the query battery and TLC (TraceQuery) validates every logged answer."""
from __future__ import annotations

import json
import multiprocessing as mp
import sys
import time

from . import core, flavours, pipeline as P, queries as Q
from .findings import Report, env_seed, load_findings, match_finding


KEEP = ("n", "par", "kids", "top", "dat", "did", "knd", "meta", "typed")


def _hist_battery(args):
    """the same query battery on trees that are the result of a HISTORY of mutating operations on one live object
    (removals with and without keep_children, moves, sorts, filters, copies, data changes), not freshly built ones"""
    import random
    from . import randops, trace
    prop, flname, seeds, steps, opts, base = args
    fl = flavours.make(flname.split("+")[0], flname.endswith("+typed"))
    out = []
    for k, seed in enumerate(seeds):
        rng = random.Random(seed)
        b = core.build({"n": 0, "par": [], "kids": [], "top": [], "dat": [], "did": [], "knd": [], "meta": [],
                        "typed": fl.typed}, fl)
        src = core.build(P.src_state(fl, 1, 0), fl, 1, name="src")
        for _ in range(steps):
            cur = trace.snapshot(b)
            op = randops.random_op(cur, rng, D=3, typed=fl.typed, kinds=(0, 2) if fl.typed else (0,), max_nodes=6,
                                   is_str=fl.is_str, families=["add", "add", "add_node", "move", "remove", "sort", "set_data", "filter"])
            core.execute(b, op, src)
        st = trace.snapshot(b)
        st = {x: st[x] for x in KEEP}
        out.append({"id": base + k, "fl": flname, "st": st, "obs": _observe(prop, Q.Ctx(b, st), fl, st, opts, base + k)})
    return out


def run_histories(rep, prop, flname, opts, label, *, histories, steps, seed):
    jobs = [(prop, flname, [seed * 10007 + h for h in range(i, histories, 16)], steps, opts, 500000 + i * 1000)
            for i in range(16)]
    with mp.get_context("fork").Pool(16) as pool:
        outs = pool.map(_hist_battery, jobs)
    recs = [r for o in outs for r in o]
    nobs = sum(len(r["obs"]) for r in recs)
    mism, checked, wall = P.validate_records(recs, module="TraceQuery.tla", tag="qh", shards=16)
    if checked != nobs:
        raise P.TLCError(f"{label}: validated {checked} of {nobs} observations")
    byid = {r["id"]: r for r in recs}
    rep.validated += nobs
    rep.evaluations += nobs
    for r in recs:
        for o in r["obs"]:
            rep.nontrivial.add(hash(("hist", flname, json.dumps(r["st"]["kids"]), json.dumps(r["st"]["dat"]), o["q"],
                                     json.dumps(o["a"], sort_keys=True))))
    for m in mism:
        if m["property"] == prop:
            rec = byid.get(m["id"])
            rep.mismatch(m, {"fl": rec["fl"], "st": rec["st"], "args": m["why"], "after_history": True} if rec else None)
    rep.stages.append({"stage": f"{label}:{flname}", "histories": histories, "observations": nobs})


def _observe(prop, c, fl, st, opts, salt):
    if prop == "C06":
        return Q.obs_c06(c, all_assign_max=opts.get("all_assign_max", 4), forms=opts.get("forms", "rotate"))
    if prop == "C09":
        return Q.obs_c09(c, D=opts.get("D", 3))
    if prop == "C10":
        return Q.obs_c10(c)
    if prop == "C15":
        return Q.obs_c15(c)
    if prop == "C16":
        return Q.obs_c16(c, styles=opts.get("styles"), rotate=salt)
    if prop == "C17":
        return Q.obs_c17(c)
    raise ValueError(prop)


def _battery(args):
    prop, states, flname, opts, base = args
    fl = flavours.make(flname.split("+")[0], flname.endswith("+typed"))
    out = []
    for k, st in enumerate(states):
        st = core.norm_state(st)
        st = {x: st[x] for x in ("n", "par", "kids", "top", "dat", "did", "knd", "meta", "typed")}
        if fl.typed and not st["typed"]:
            st = dict(st, typed=True, knd=[1] * st["n"])
        # every other state is created level by level, so that creation order differs from pre-order
        b = core.build(st, fl, order="level" if (base + k) % 2 else "pre")
        c = Q.Ctx(b, st)
        if prop == "C06":
            obs = Q.obs_c06(c, all_assign_max=opts.get("all_assign_max", 4), forms=opts.get("forms", "rotate"))
        elif prop == "C09":
            obs = Q.obs_c09(c, D=opts.get("D", 3))
        elif prop == "C10":
            obs = Q.obs_c10(c)
        elif prop == "C15":
            obs = Q.obs_c15(c)
        elif prop == "C16":
            obs = Q.obs_c16(c, styles=opts.get("styles"), rotate=base + k)
        elif prop == "C17":
            obs = Q.obs_c17(c)
        elif prop == "C07":
            obs = Q.obs_c07(c)
        elif prop == "C08":
            obs = Q.obs_c08(c, lambda st=st: core.build(st, fl), assignments=_assignments(st, opts, base + k),
                            form_rotate=base + k)
        else:
            raise ValueError(prop)
        # the queries are read-only: the tree must still project to the same state (C13, read-only half)
        after = core.project(b)["st"]
        if after != st:
            obs.append({"q": "iter", "a": {"start": 0, "m": "pre", "self": False, "note": "tree changed by read-only calls"},
                        "r": {"s": "changed", "v": 0}})
        out.append({"id": base + k, "fl": flname, "st": st, "obs": obs})
    return out


def _desc(st, p):
    out, stack = [], list(st["top"] if p == 0 else st["kids"][p - 1])
    while stack:
        x = stack.pop()
        out.append(x)
        stack.extend(st["kids"][x - 1])
    return sorted(out)


def _assignments(st, opts, salt):
    """all verdict assignments over the descendants of every start node (others are never asked);
    beyond `full_max` descendants a seeded sample"""
    import itertools
    import random
    n = st["n"]
    rng = random.Random(opts.get("seed", 0) * 1000003 + salt)
    for p in range(0, n + 1):
        ds = _desc(st, p)
        if not ds:
            continue
        if len(ds) <= opts.get("full_max", 3):
            combos = itertools.product(Q.FVERD, repeat=len(ds))
        else:
            combos = (tuple(rng.choice(Q.FVERD) for _ in ds) for _ in range(opts.get("sample", 200)))
        for combo in combos:
            v = ["F"] * n
            for i, vd in zip(ds, combo):
                v[i - 1] = vd
            yield p, v


def run_states(rep, prop, states, flname, opts, label):
    t0 = time.time()
    chunks = [states[i::32] for i in range(32) if states[i::32]]
    jobs = []
    base = 0
    for ch in chunks:
        jobs.append((prop, ch, flname, opts, base))
        base += len(ch)
    with mp.get_context("fork").Pool(16) as pool:
        outs = pool.map(_battery, jobs)
    recs = [r for o in outs for r in o]
    nobs = sum(len(r["obs"]) for r in recs)
    mism, checked, wall = P.validate_records(recs, module="TraceQuery.tla", tag="q", shards=16)
    if checked != nobs:
        raise P.TLCError(f"{label}: validated {checked} of {nobs} observations")
    byid = {r["id"]: r for r in recs}
    rep.validated += nobs
    rep.evaluations += nobs
    for r in recs:
        for o in r["obs"]:
            rep.nontrivial.add(hash((flname, json.dumps(r["st"]["kids"]), json.dumps(r["st"]["dat"]),
                                     json.dumps(r["st"]["knd"]), o["q"], json.dumps(o["a"], sort_keys=True))))
    if recs:
        r = recs[len(recs) // 2]
        rep.add_sample({"fl": flname, "st": {k: r["st"][k] for k in ("top", "kids", "dat", "knd")}, "obs": r["obs"][:3]})
    for m in mism:
        if m["property"] != prop:
            continue
        rec = byid.get(m["id"])
        slim = None
        if rec is not None:
            slim = {"fl": rec["fl"], "st": rec["st"], "args": m["why"]}
        rep.mismatch(m, slim)
    rep.stages.append({"stage": f"{label}:{flname}", "states": len(states), "observations": nobs,
                       "wall_s": round(time.time() - t0, 1)})


def shapes(rep, *, max_nodes, k=0, label, extra_inv=(), workers=1):
    res = P.mc_shapes(max_nodes=max_nodes, k=k, workers=workers,
                      invariants=("InvIter", "InvVisit", "InvRel", "InvTyped", "InvPrefix") + tuple(extra_inv))
    if not res.ok:
        raise P.TLCError(f"{label}: TLC found a law violated on the specification itself: {res.errors[:3]} {res.tail[-8:]}")
    rep.add_mc(res, label)
    sts = [r for r in res.json_lines() if "kids" in r]
    res.cleanup()
    if len(sts) != res.distinct:
        raise P.TLCError(f"{label}: {len(sts)} states emitted but TLC found {res.distinct}")
    return sts


def labelled(rep, *, max_nodes, d, label, typed=False, kinds=(0,), xids=(0,)):
    res = P.core_states(P.core_constants(max_nodes=max_nodes, d=d, typed=typed, kinds=kinds, xids=xids,
                                         ops=["add", "add_node"], emit=False))
    if not res.ok:
        raise P.TLCError(f"{label}: TLC failed: {res.errors[:3]} {res.tail[-8:]}")
    rep.add_mc(res, label)
    sts = [r["state"] for r in res.json_lines() if "state" in r]
    res.cleanup()
    return sts


def copies_stage(rep, quick):
    """C07: copies into NEW trees (Tree.copy, Node.copy, copy_to a fresh tree) on every labelled forest in the bound"""
    sts = labelled(rep, max_nodes=4 if quick else 5, d=2, label="copies:labelled")
    run_states(rep, "C07", sts, "str", {}, "copies")
    # Tree(forward_attrs=True) over data objects that have a `kind` attribute of their own
    run_states(rep, "C07", sts if not quick else sts[::3], "fwd", {}, "copies-fwd")
    # trees with an id callback (equal-comparing objects keyed by the callback; unhashable dicts)
    run_states(rep, "C07", sts if not quick else sts[1::3], "keyed", {}, "copies-keyed")
    run_states(rep, "C07", sts if not quick else sts[2::3], "unhash", {}, "copies-unhashable")
    sts2 = labelled(rep, max_nodes=3, d=2, xids=(0, 11), label="copies:ids")
    run_states(rep, "C07", sts2, "str", {}, "copies-ids")
    sts3 = labelled(rep, max_nodes=3, d=2, typed=True, kinds=(0, 2), label="copies:typed")
    run_states(rep, "C07", sts3 if not quick else sts3[::4], "str+typed", {}, "copies-typed")


def run(prop: str, tier: str) -> int:
    seed = env_seed()
    rep = Report(prop, tier, seed)
    rep.dedupe_on_why = False
    quick = tier == "quick"
    rep.rule = ("TLC enumerates every state in the bound (MC_Shapes: ordered forests; MC_Core: labelled forests with "
                "clones) and checks the query laws on the spec; for every state x flavour the query battery is run on "
                "the real library and each logged answer is compared by TLC (TraceQuery) with the NutreeQueries "
                "operator. distinct = (flavour, state, query, arguments).")
    rep.exhaustive = True
    if prop == "C06":
        sts = shapes(rep, max_nodes=5 if quick else 7, label="shapes")
        run_states(rep, prop, sts, "str", {"all_assign_max": 3 if quick else 5, "forms": "rotate" if quick else "all"}, "c06")
        # all data compare equal (skip/stop bookkeeping must go by identity)
        run_states(rep, prop, sts if not quick else sts[::2], "keyed", {"all_assign_max": 3 if quick else 4}, "c06-eq")
        rep.assumptions = ["SkipBranch is not driven for post-order (documented as unsupported)",
                           "visit() with methods other than pre/post/level is not driven",
                           "UNORDERED/RANDOM are only offered by Tree.iterator; checked as permutations"]
    elif prop == "C09":
        sts = labelled(rep, max_nodes=3 if quick else 4, d=3, label="labelled")
        run_states(rep, prop, sts, "words", {"D": 3}, "c09")
        run_states(rep, prop, sts if not quick else sts[::2], "int", {"D": 3}, "c09-int-keys")   # int data_ids: ambiguous int keys
        run_states(rep, prop, sts if not quick else sts[1::2], "unhash", {"D": 3}, "c09-unhashable")   # dicts + id callback
        run_states(rep, prop, sts if not quick else sts[::3], "falsy", {"D": 3}, "c09-falsy-data")    # int data incl. 0 (data_id 0)
        sts0 = labelled(rep, max_nodes=3, d=2, xids=(0, 11), label="labelled+ids")
        run_states(rep, prop, sts0 if not quick else sts0[::2], "str0", {"D": 2}, "c09-falsy-ids")      # explicit data_ids 0 and ""
        if not quick:
            run_states(rep, prop, sts, "keyed", {"D": 3}, "c09")
            run_states(rep, prop, sts0, "words", {"D": 2}, "c09ids")
        rep.assumptions = ["the set of nodes a pattern matches is computed by the harness with re.fullmatch on node.name "
                           "(Python's re is the reference for regex semantics)"]
    elif prop == "C10":
        sts = shapes(rep, max_nodes=5 if quick else 7, label="shapes")
        run_states(rep, prop, sts, "str", {}, "c10")
        # larger trees with clones in different depths (few labels, 6-7 nodes; a seeded sample)
        import random
        from .checks_diff import random_tree
        rng = random.Random(seed + 77)
        big = [random_tree(rng, rng.randint(6, 7), rng.randint(2, 3)) for _ in range(300 if quick else 5000)]
        run_states(rep, prop, big, "str", {}, "c10-clones-deep")
        run_histories(rep, prop, "str", {}, "c10-after-histories", histories=60 if quick else 1500, steps=14, seed=seed)
        run_histories(rep, prop, "keyed", {}, "c10-after-histories", histories=30 if quick else 600, steps=14, seed=seed + 1)
        run_states(rep, prop, sts if not quick else sts[: len(sts)], "keyed", {}, "c10-eq")   # all data compare ==
        sts2 = labelled(rep, max_nodes=3 if quick else 4, d=2 if quick else 3, label="labelled")
        run_states(rep, prop, sts2, "keyed", {}, "c10-clones")
    elif prop == "C15":
        sts = shapes(rep, max_nodes=4 if quick else 6, k=2, label="typed-shapes")
        run_states(rep, prop, sts, "str+typed", {}, "c15")
        run_states(rep, prop, sts if not quick else sts[::2], "keyed+typed", {}, "c15-eq")   # all data compare ==
        run_states(rep, prop, sts if not quick else sts[1::2], "kstr+typed", {}, "c15-empty-kind")   # one kind is ""
        if not quick:
            sts3 = shapes(rep, max_nodes=4, k=3, label="typed-shapes-3-kinds")
            run_states(rep, prop, sts3, "str+typed", {}, "c15-k3")
    elif prop == "C08":
        sts = shapes(rep, max_nodes=4 if quick else 5, label="shapes", extra_inv=("InvFilter",), workers=16)
        o = {"full_max": 3 if quick else 5, "sample": 150, "seed": seed}
        run_states(rep, prop, sts, "str", o, "c08")
        sts2 = labelled(rep, max_nodes=3 if quick else 4, d=2 if quick else 3, label="labelled-clones")
        run_states(rep, prop, sts2, "keyed", dict(o, full_max=3 if quick else 4), "c08-clones")
        # Tree(forward_attrs=True) over data objects with a `kind` attribute of their own
        run_states(rep, prop, sts2 if not quick else sts2[::2], "fwd", dict(o, full_max=3), "c08-fwd")
        # explicit data_ids (the copying forms must carry them over)
        sts4 = labelled(rep, max_nodes=3, d=2, xids=(0, 11), label="labelled+ids")
        run_states(rep, prop, sts4 if not quick else sts4[::2], "str", dict(o, full_max=3), "c08-ids")
        sts3 = shapes(rep, max_nodes=3 if quick else 4, k=2, label="typed-shapes")
        run_states(rep, prop, sts3, "str+typed", dict(o, full_max=2 if quick else 3), "c08-typed")
        rep.assumptions = ["predicates answer per node identity; verdict forms rotate over: returned instance, raised "
                           "instance, returned class, raised class, StopIteration for stop",
                           "falsy verdicts alternate between False and None"]
    elif prop == "C17":
        sts = shapes(rep, max_nodes=4 if quick else 6, label="shapes", extra_inv=("InvExport",))
        run_states(rep, prop, sts, "str", {}, "c17")
        sts2 = labelled(rep, max_nodes=3 if quick else 4, d=2 if quick else 3, label="labelled-clones")
        run_states(rep, prop, sts2, "str", {}, "c17-clones")
        run_states(rep, prop, sts2, "falsy", {}, "c17-int0")
        sts3 = labelled(rep, max_nodes=3, d=2, typed=True, kinds=(0, 2), label="typed-clones")
        run_states(rep, prop, sts3, "str+typed", {}, "c17-typed")
        rep.assumptions = ["only the emitted text / triples are examined (no Graphviz or mmdc rendering)",
                           "graph node keys are mapped back through the harness registry (data_id / node_id)"]
    elif prop == "C16":
        sts = shapes(rep, max_nodes=6 if quick else 7, label="shapes")
        run_states(rep, prop, sts, "str", {}, "c16")
        # clones (a clone may be a last sibling where its twin is not) and typed trees (TypedNode overloads
        # is_last_sibling() as "last of its kind")
        sts2 = labelled(rep, max_nodes=4, d=2 if quick else 3, label="labelled-clones")
        run_states(rep, prop, sts2 if not quick else sts2[::2], "str", {"styles": ["round43", "lines32c", "ascii11", "custom6"]}, "c16-clones")
        sts3 = shapes(rep, max_nodes=4 if quick else 5, k=2, label="typed-shapes")
        run_states(rep, prop, sts3 if not quick else sts3[::2], "str+typed", {"styles": ["round43", "lines43c", "custom4"]}, "c16-typed")
        rep.assumptions = ["styles whose segments are not pairwise distinct (space1..space4) cannot be decoded and are "
                           "checked for line count/order only"]
    else:
        raise ValueError(prop)
    return rep.finish()


def replay(prop, data):
    rec = data["record"]
    fl = rec["fl"]
    rep = Report(prop, "quick", 0)
    rep.findings = []   # a replay reports what it sees; known findings are listed by the check itself
    run_states(rep, prop, [rec["st"]], fl, {"all_assign_max": 5, "forms": "all", "full_max": 4, "D": 3}, "replay")
    bad = len(rep.violations)
    for m, r in rep.violations[:10]:
        print(f"  clause={m['clause']} args={m['why']}")
    if bad:
        print(f"VIOLATION property={prop} replay={data.get('path', '')}")
        return 1
    print(f"{prop}: replay agrees with the specification")
    return 0


if __name__ == "__main__":
    sys.exit(run(sys.argv[1], sys.argv[2] if len(sys.argv) > 2 else "quick"))
