"""External recorder for the repository's own test-suite (pytest plugin: `-p harness.suite_recorder`).

Active only with MAR10_NUTREE_VERIF=1.  Nothing in /repo is changed: at import time the public mutating methods
of Node / TypedNode / Tree / TypedTree are wrapped from the outside.  Every OUTERMOST call (the linearization
point of a sequential library is the public call's return) is logged as a self-contained step record
{pre, src?, op, status, ret, post, obs} in the vocabulary of spec/Nutree.tla, with per-record registries for data
objects, data_ids, kinds and meta keys.  Calls whose arguments the specification deliberately does not pin
(out-of-range int positions, custom sort keys, ...) are counted as skipped, not guessed."""
from __future__ import annotations

import functools
import json
import os
import threading

ACTIVE = os.environ.get("MAR10_NUTREE_VERIF") == "1" and os.environ.get("NUTREE_SUITE_TRACE")
_local = threading.local()
_out = None
_count = {"rec": 0, "skip": 0}
MK = 3


class Skip(Exception):
    pass


class RecFlavour:
    """per-record registries: model value = first-appearance index"""
    name = "suite"
    is_str = False
    name_sorted = False

    def __init__(self, tree):
        self.tree = tree
        self.typed = hasattr(tree, "DEFAULT_CHILD_TYPE")
        self.defids = []   # default data_ids, index+1 = model data value
        self.xids = []     # explicit ids
        self.kinds = ["child"]
        self.mkeys = []
        self.mvals = []

    def _default_id(self, obj):
        return self.tree.calc_data_id(obj)

    def data_index(self, obj):
        try:
            key = self._default_id(obj)
        except Exception:  # noqa: BLE001  (e.g. the '<deleted>' tag of removed nodes is fine; unhashable is not)
            raise Skip("unhashable data")
        for i, k in enumerate(self.defids):
            if k == key and type(k) is type(key):
                return i + 1
        self.defids.append(key)
        if len(self.defids) > 40:
            raise Skip("too many data values")
        return len(self.defids)

    def model_default_did(self, d):
        return d

    def model_did(self, real, maxd=0):
        for i, k in enumerate(self.defids):
            if k == real and type(k) is type(real):
                return i + 1
        for i, k in enumerate(self.xids):
            if k == real and type(k) is type(real):
                return 100 + i
        self.xids.append(real)
        return 100 + len(self.xids) - 1

    def real_did(self, m):
        return self.xids[m - 100] if m >= 100 else self.defids[m - 1]

    def kind_of(self, k):
        if k is None:
            return 0
        if k not in self.kinds:
            self.kinds.append(k)
        return self.kinds.index(k) + 1

    def kind_id(self, node):
        if not self.typed:
            return 0
        return self.kind_of(getattr(node, "kind", None))

    def meta_key_id(self, k):
        if k not in self.mkeys:
            self.mkeys.append(k)
        i = self.mkeys.index(k) + 1
        if i > MK:
            raise Skip("more meta keys than the model has")
        return i

    def meta_val(self, v):
        for i, x in enumerate(self.mvals):
            if x is v or (type(x) is type(v) and x == v):
                return i + 1
        self.mvals.append(v)
        return len(self.mvals)


def _preorder(tree):
    out = []
    stack = [iter(list(tree.children))]
    while stack:
        try:
            nd = next(stack[-1])
        except StopIteration:
            stack.pop()
            continue
        out.append(nd)
        if len(out) > 60:
            raise Skip("tree larger than 60 nodes")
        stack.append(iter(list(nd.children)))
    return out


def _nid(b, node):
    if node is b.tree._root:
        return 0
    for i, nd in enumerate(b.nodes):
        if nd is node:
            return i
    raise Skip("node not part of the tree")


def _pos(b, before, parent_id, st):
    from nutree.node import Node
    if before is None:
        return {"t": "none", "v": 0}
    if before is True:
        return {"t": "true", "v": 0}
    if before is False:
        return {"t": "false", "v": 0}
    if isinstance(before, Node):
        return {"t": "node", "v": _nid(b, before)}
    if isinstance(before, int):
        kids = st["top"] if parent_id == 0 else st["kids"][parent_id - 1]
        if 0 <= before <= len(kids):
            return {"t": "idx", "v": before}
        raise Skip("int position outside the child list")
    raise Skip("unknown before")


def _record(tree, build_op, call):
    """tree: the tree the call may change; build_op(b, st, ctx) -> op record (may raise Skip); call() performs it"""
    global _out
    from . import core, trace
    try:
        fl = RecFlavour(tree)
        nodes = _preorder(tree)
        b = core.Built(tree, [None] + nodes, fl, MK)
        pre = core.project(b)["st"]
        ctx = {"fl": fl}
        op = build_op(b, pre, ctx)
        pre_nids = core.node_ids(b)
    except Skip:
        _count["skip"] += 1
        return call()
    except Exception:  # noqa: BLE001   never let the recorder break a test
        _count["skip"] += 1
        return call()
    status, ret, exc = "ok", None, None
    try:
        ret = call()
    except BaseException as e:  # noqa: BLE001
        status, exc = type(e).__name__, e
    try:
        rec = {"id": 0, "fl": "suite", "pre": pre, "op": op, "status": status}
        if "src" in ctx:
            rec["src"] = ctx["src_pre"]
        try:
            dids = sorted(set(pre["did"]))
            proj = core.project(b, dids, pre_nids)
            rec["post"] = proj["st"]
            rec["obs"] = proj["obs"]
            rec["obs"]["by_data"] = []
            rec["obs"]["clones"] = []
            rec["ret"] = core.ret_id(b, ret) if status == "ok" and not isinstance(ret, (bool, int, str)) else 0
            if rec["ret"] == -2:
                rec["ret"] = 0
        except core.Unprojectable as e:
            rec["bad"] = str(e)
        if "src" in ctx:
            sb = ctx["src"]
            rec["srcpost"] = "same" if core.project(sb)["st"] == ctx["src_pre"] else "changed"
        if op.get("name") == "filter" and "verdicts" in ctx:
            v = ["F"] * pre["n"]
            for i, vd in ctx["verdicts"].items():
                if 1 <= i <= pre["n"]:
                    v[i - 1] = vd
            rec["op"] = dict(op, v=v)
        _count["rec"] += 1
        rec["id"] = _count["rec"]
        rec["test"] = os.environ.get("PYTEST_CURRENT_TEST", "")
        _out.write(json.dumps(rec, default=str) + "\n")
    except Skip:
        _count["skip"] += 1
    except Exception:  # noqa: BLE001
        _count["skip"] += 1
    if exc is not None:
        raise exc
    return ret


def _src_of(b, ctx, other_tree):
    """project a foreign source tree with the SAME registries"""
    from . import core
    nodes = _preorder(other_tree)
    sb = core.Built(other_tree, [None] + nodes, ctx["fl"], MK)
    saved = ctx["fl"].typed
    ctx["fl"].typed = hasattr(other_tree, "DEFAULT_CHILD_TYPE")
    ctx["src_pre"] = core.project(sb)["st"]
    ctx["fl"].typed = saved
    ctx["src"] = sb
    return sb


def _add_op(b, st, ctx, parent, child, before, deep, data_id, node_id, kind, name="add_child", pos=None):
    from nutree.node import Node
    from nutree.tree import Tree
    fl = ctx["fl"]
    p = _nid(b, parent)
    if pos is None:
        pos = _pos(b, before, p, st)
    if isinstance(child, Tree):
        if child is b.tree or name != "add_child":
            raise Skip("tree into itself")
        _src_of(b, ctx, child)
        return {"name": "add_tree", "p": p, "deep": True if deep is None else bool(deep), "pos": pos}
    if isinstance(child, Node):
        if data_id is not None or node_id is not None:
            raise Skip("ids with node copies")
        if child._tree is b.tree:
            x, src = _nid(b, child), "T"
        else:
            if child._tree is None:
                raise Skip("removed node")
            sb = _src_of(b, ctx, child._tree)
            x, src = _nid(sb, child), "S"
        return {"name": "add_node", "p": p, "src": src, "x": x, "k": fl.kind_of(kind), "deep": bool(deep), "pos": pos}
    d = fl.data_index(child)
    xid = 0
    if data_id is not None:
        m = fl.model_did(data_id)
        xid = 0 if m == d else m
    if name == "add_child":
        return {"name": "add_child", "p": p, "d": d, "xid": xid, "k": fl.kind_of(kind), "pos": pos}
    return {"name": name, "p": p, "d": d, "xid": xid, "k": fl.kind_of(kind)}


def _wrap(cls, name, maker):
    orig = cls.__dict__.get(name)
    if orig is None:
        return
    @functools.wraps(orig)
    def wrapper(self, *a, **kw):
        if getattr(_local, "depth", 0) > 0 or _out is None:
            return orig(self, *a, **kw)
        _local.depth = 1
        try:
            try:
                tree, build_op = maker(self, *a, **kw)
            except Skip:
                _count["skip"] += 1
                return orig(self, *a, **kw)
            if tree is None:
                return orig(self, *a, **kw)
            return _record(tree, build_op, lambda: orig(self, *a, **kw))
        finally:
            _local.depth = 0
    setattr(cls, name, wrapper)


def install():
    from nutree.common import SelectBranch, SkipBranch, StopTraversal
    from nutree.node import Node
    from nutree.tree import Tree
    from nutree.typed_tree import TypedNode, TypedTree

    def node_tree(self):
        t = getattr(self, "_tree", None)
        if t is None or getattr(t, "_root", None) is None:
            raise Skip("no tree")
        return t

    def m_add_child(self, child, *, before=None, deep=None, data_id=None, node_id=None, kind=None):
        return node_tree(self), lambda b, st, ctx: _add_op(b, st, ctx, self, child, before, deep, data_id, node_id, kind)

    def m_append_child(self, child, *, deep=None, data_id=None, node_id=None, kind=None):
        def build(b, st, ctx):
            if _nid(b, self) == 0:
                raise Skip("system root")
            return _add_op(b, st, ctx, self, child, None, deep, data_id, node_id, kind,
                           name="append_child" if not hasattr(child, "_tree") or isinstance(child, (str, int)) else "add_child",
                           pos={"t": "none", "v": 0})
        return node_tree(self), build

    def m_prepend_child(self, child, *, deep=None, data_id=None, node_id=None, kind=None):
        def build(b, st, ctx):
            p = _nid(b, self)
            if p == 0:
                raise Skip("system root")
            kids = st["kids"][p - 1]
            pos = {"t": "node", "v": kids[0]} if kids else {"t": "none", "v": 0}
            from nutree.node import Node as N
            from nutree.tree import Tree as T
            nm = "add_child" if isinstance(child, (N, T)) else "prepend_child"
            return _add_op(b, st, ctx, self, child, None, deep, data_id, node_id, kind, name=nm, pos=pos)
        return node_tree(self), build

    def m_sibling(which):
        def m(self, child, *, deep=None, data_id=None, node_id=None):
            def build(b, st, ctx):
                from nutree.node import Node as N
                from nutree.tree import Tree as T
                x = _nid(b, self)
                if x == 0:
                    raise Skip("system root")
                fl = ctx["fl"]
                if isinstance(child, (N, T)):
                    p = st["par"][x - 1]
                    sib = st["top"] if p == 0 else st["kids"][p - 1]
                    i = sib.index(x)
                    pos = {"t": "node", "v": x} if which == "prepend_sibling" else \
                        ({"t": "node", "v": sib[i + 1]} if i + 1 < len(sib) else {"t": "none", "v": 0})
                    parent = self._parent
                    kind = getattr(self, "kind", None) if fl.typed else None
                    return _add_op(b, st, ctx, parent, child, None, deep, data_id, node_id, kind, name="add_child", pos=pos)
                d = fl.data_index(child)
                xid = 0
                if data_id is not None:
                    mm = fl.model_did(data_id)
                    xid = 0 if mm == d else mm
                return {"name": which, "x": x, "d": d, "xid": xid}
            return node_tree(self), build
        return m

    def m_move_to(self, new_parent, *, before=None):
        def build(b, st, ctx):
            x = _nid(b, self)
            tgt = new_parent._root if isinstance(new_parent, Tree) else new_parent
            if tgt._tree is not b.tree:
                return {"name": "move_foreign", "x": x}
            p = _nid(b, tgt)
            pos = _pos(b, before, p, st)
            if st["par"][x - 1] == p and pos["t"] == "idx" and pos["v"] != 0:
                raise Skip("int position within the same parent")
            return {"name": "move_to", "x": x, "p": p, "pos": pos}
        return node_tree(self), build

    def m_remove(self, *, keep_children=False, with_clones=False):
        return node_tree(self), lambda b, st, ctx: {"name": "remove", "x": _nid(b, self), "keep": bool(keep_children),
                                                     "clones": bool(with_clones)}

    def m_remove_children(self):
        def build(b, st, ctx):
            p = _nid(b, self)
            return {"name": "clear"} if p == 0 else {"name": "remove_children", "p": p}
        return node_tree(self), build

    def m_sort_children(self, *, key=None, reverse=False, deep=False):
        def build(b, st, ctx):
            if key is not None:
                raise Skip("custom sort key")
            names = sorted({str(nd.data) for nd in b.nodes[1:]})
            rank = [0] * len(ctx["fl"].defids)
            for nd in b.nodes[1:]:
                rank[ctx["fl"].data_index(nd.data) - 1] = names.index(str(nd.data)) + 1
            if 0 in rank:
                raise Skip("rank")
            return {"name": "sort_children", "p": _nid(b, self), "rank": rank, "rev": bool(reverse), "deep": bool(deep)}
        return node_tree(self), build

    def m_set_data(self, data, *, data_id=None, with_clones=None):
        def build(b, st, ctx):
            fl = ctx["fl"]
            d = 0 if data is None else fl.data_index(data)
            xid = 0
            if data_id is not None:
                xid = fl.model_did(data_id)
            return {"name": "set_data", "x": _nid(b, self), "d": d, "xid": xid,
                    "wc": "none" if with_clones is None else ("true" if with_clones else "false")}
        return node_tree(self), build

    def m_rename(self, new_name):
        return node_tree(self), lambda b, st, ctx: {"name": "rename", "x": _nid(b, self), "d": ctx["fl"].data_index(new_name),
                                                     "isstr": isinstance(self.data, str)}

    def m_set_meta(self, key, value):
        return node_tree(self), lambda b, st, ctx: {"name": "set_meta", "x": _nid(b, self), "key": ctx["fl"].meta_key_id(key),
                                                     "val": 0 if value is None else ctx["fl"].meta_val(value)}

    def m_clear_meta(self, key=None):
        return node_tree(self), lambda b, st, ctx: {"name": "clear_meta", "x": _nid(b, self),
                                                     "key": 0 if key is None else ctx["fl"].meta_key_id(key)}

    def m_update_meta(self, values, *, replace=False):
        def build(b, st, ctx):
            m = [0] * MK
            for k, v in values.items():
                if v is None:
                    raise Skip("None in update_meta")
                m[ctx["fl"].meta_key_id(k) - 1] = ctx["fl"].meta_val(v)
            return {"name": "update_meta", "x": _nid(b, self), "m": m, "replace": bool(replace)}
        return node_tree(self), build

    def m_tree_clear(self):
        return self, lambda b, st, ctx: {"name": "clear"}

    def m_tree_sort(self, *, key=None, reverse=False, deep=True):
        t, build = m_sort_children(self._root, key=key, reverse=reverse, deep=deep)
        return self, build

    def m_tree_add(self, child, *, before=None, deep=None, data_id=None, node_id=None, kind=None):
        return self, lambda b, st, ctx: _add_op(b, st, ctx, self._root, child, before, deep, data_id, node_id, kind)

    def m_delitem(self, data):
        def build(b, st, ctx):
            fl = ctx["fl"]
            if isinstance(data, Node):
                return {"name": "del", "key": {"t": "node", "v": 0}}
            if isinstance(data, int) and not isinstance(data, bool):
                for i, nd in enumerate(b.nodes):
                    if nd is not None and nd.node_id == data:
                        return {"name": "del", "key": {"t": "nid", "v": i}}
            if isinstance(data, (int, str)) and data in self._nodes_by_data_id:
                return {"name": "del", "key": {"t": "did", "v": fl.model_did(data)}}
            return {"name": "del", "key": {"t": "data", "v": fl.data_index(data)}}
        return self, build

    def m_filter(self, predicate):
        def build(b, st, ctx):
            ctx["verdicts"] = {}
            return {"name": "filter", "p": _nid(b, self), "v": []}
        tree = self if isinstance(self, Tree) else node_tree(self)
        return tree, build

    # filter needs the verdicts: wrap the predicate
    def wrap_filter(cls):
        orig = cls.__dict__.get("filter")
        if orig is None:
            return

        @functools.wraps(orig)
        def wrapper(self, predicate):
            if getattr(_local, "depth", 0) > 0 or _out is None or not callable(predicate):
                return orig(self, predicate)
            tree = self if isinstance(self, Tree) else getattr(self, "_tree", None)
            if tree is None:
                return orig(self, predicate)
            holder = {}

            def build(b, st, ctx):
                holder["b"] = b
                holder["ctx"] = ctx
                ctx["verdicts"] = {}
                start = self._root if isinstance(self, Tree) else self
                return {"name": "filter", "p": _nid(b, start), "v": []}

            def pred(node):
                b = holder.get("b")
                i = None
                if b is not None:
                    for k, nd in enumerate(b.nodes):
                        if nd is node:
                            i = k
                try:
                    r = predicate(node)
                except SkipBranch as e:
                    if i:
                        holder["ctx"]["verdicts"][i] = "skipKeep" if e.and_self is False else "skip"
                    raise
                except SelectBranch:
                    if i:
                        holder["ctx"]["verdicts"][i] = "select"
                    raise
                except (StopTraversal, StopIteration):
                    if i:
                        holder["ctx"]["verdicts"][i] = "stop"
                    raise
                if i:
                    if r is True:
                        vd = "T"
                    elif r in (None, False):
                        vd = "F"
                    elif isinstance(r, SkipBranch) or r is SkipBranch:
                        vd = "skipKeep" if getattr(r, "and_self", None) is False else "skip"
                    elif isinstance(r, SelectBranch) or r is SelectBranch:
                        vd = "select"
                    elif isinstance(r, StopTraversal) or r is StopTraversal:
                        vd = "stop"
                    else:
                        vd = "other"
                    holder["ctx"]["verdicts"][i] = vd
                return r

            _local.depth = 1
            try:
                return _record(tree, build, lambda: orig(self, pred))
            finally:
                _local.depth = 0
        setattr(cls, "filter", wrapper)

    for cls in (Node, TypedNode):
        _wrap(cls, "add_child", m_add_child)
        _wrap(cls, "append_child", m_append_child)
        _wrap(cls, "prepend_child", m_prepend_child)
        _wrap(cls, "prepend_sibling", m_sibling("prepend_sibling"))
        _wrap(cls, "append_sibling", m_sibling("append_sibling"))
        _wrap(cls, "move_to", m_move_to)
        if "add_child" in cls.__dict__:
            cls.add = cls.add_child
    _wrap(Node, "remove", m_remove)
    _wrap(Node, "remove_children", m_remove_children)
    _wrap(Node, "sort_children", m_sort_children)
    _wrap(Node, "set_data", m_set_data)
    _wrap(Node, "rename", m_rename)
    _wrap(Node, "set_meta", m_set_meta)
    _wrap(Node, "clear_meta", m_clear_meta)
    _wrap(Node, "update_meta", m_update_meta)
    wrap_filter(Node)
    for cls in (Tree, TypedTree):
        _wrap(cls, "add_child", m_tree_add)
        if "add_child" in cls.__dict__:
            cls.add = cls.add_child
    _wrap(Tree, "clear", m_tree_clear)
    _wrap(Tree, "sort", m_tree_sort)
    _wrap(Tree, "__delitem__", m_delitem)
    wrap_filter(Tree)


if ACTIVE:
    _out = open(os.environ["NUTREE_SUITE_TRACE"], "a")
    install()


def pytest_sessionfinish(session, exitstatus):
    if _out is not None:
        _out.flush()
        with open(os.environ["NUTREE_SUITE_TRACE"] + ".stats", "w") as f:
            json.dump(_count, f)
