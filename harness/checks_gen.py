"""Check C20: build_random_tree conforms to its structure definition (spec/NutreeGen.tla)."""
from __future__ import annotations

import json
import multiprocessing as mp
import os
import random
import sys
import time
from datetime import date, datetime, timezone

from nutree import Tree
from nutree.common import DictWrapper
from nutree.tree_generator import (BlindTextRandomizer, DateRangeRandomizer, RangeRandomizer, SampleRandomizer,
                                   SparseBoolRandomizer, TextRandomizer, ValueRandomizer)
from nutree.typed_tree import TypedTree

from . import pipeline as P
from .findings import Report, env_seed
from .tlcrun import WORK, run_tlc, write_cfg

KEYS = {"ty": 1, "i": 2, "h": 3, "icon": 4, "num": 5, "flag": 6, "f": 7, "d": 8, "s": 9, "txt": 10, "cb": 11, "g": 12, "v": 13}
TYPES = {"__root__": 0, "folder": 1, "item": 2, "leaf": 3, "note": 4}
STR_CODES = {"gear": 90, "bolt": 91, "star": 92, "moon": 93, "sun": 94, "x": 95}
D0 = date(2020, 1, 1)


class Holder:
    """custom :factory"""

    def __init__(self, **kw):
        self.__dict__.update(kw)
        self._d = kw

    def __repr__(self):
        return f"Holder({self._d})"


def add_cb(data):
    data["cb"] = 1


def sp(kind, a=0, b=0, opt=False):
    return {"k": kind, "a": a, "b": b, "opt": opt}


def spec_of(key, val):
    """abstract spec of one attribute value of the Python structure definition"""
    if isinstance(val, RangeRandomizer):
        if val.is_float:
            return sp("range", round(val.min * 1e6), round(val.max * 1e6), val.probability < 1.0 and val.none_value is None)
        lo = val.min
        if val.probability < 1.0 and val.none_value is not None:
            # a skipped draw yields none_value instead of dropping the attribute
            assert val.none_value == val.min - 1, "library definitions use an adjacent none_value"
            lo = val.none_value
        return sp("range", lo, val.max - 1, val.probability < 1.0 and val.none_value is None)
    if isinstance(val, DateRangeRandomizer):
        return sp("range", (val.min - D0).days, (val.min - D0).days + val.delta_days - 1, val.probability < 1.0)
    # a randomizer may produce a string holding a macro: it is expanded like a literal one (user guide:
    # TextRandomizer("{idx}: Provide ..."))
    if isinstance(val, ValueRandomizer) and val.value in ("{idx}", "{hier_idx}"):
        return sp("idx" if val.value == "{idx}" else "hier", 0, 0, val.probability < 1.0)
    if isinstance(val, SampleRandomizer) and list(val.sample_list) in (["{idx}"], ["{hier_idx}"]):
        return sp("idx" if list(val.sample_list) == ["{idx}"] else "hier", 0, 0, val.probability < 1.0)
    if isinstance(val, SparseBoolRandomizer):
        return sp("value", 1, 0, val.probability < 1.0)
    if isinstance(val, ValueRandomizer):
        return sp("value", code(val.value), 0, val.probability < 1.0)
    if isinstance(val, SampleRandomizer):
        cs = sorted(code(x) for x in val.sample_list)
        assert cs == list(range(cs[0], cs[0] + len(cs)))
        return sp("range", cs[0], cs[-1], val.probability < 1.0)
    if isinstance(val, (TextRandomizer, BlindTextRandomizer)):
        return sp("present", 0, 0, val.probability < 1.0)
    if val == "{idx}":
        return sp("idx")
    if val == "{hier_idx}":
        return sp("hier")
    return sp("fixed", code(val))


def code(v):
    if isinstance(v, bool):
        return 1 if v else 0
    if isinstance(v, int):
        return v
    if isinstance(v, str):
        return STR_CODES[v]
    raise TypeError(v)


def layer_of(d):
    return [[KEYS[k], spec_of(k, v)] for k, v in d.items() if not k.startswith(":")]


def count_of(spec):
    c = spec.get(":count", 1)
    if isinstance(c, RangeRandomizer):
        return c.min, c.max - 1, c.probability < 1.0
    return c, c, False


def abstract_def(sd):
    types = sd.get("types", {})
    glob = layer_of(types.get("*", {}))
    tl = [[TYPES[t], layer_of(v)] for t, v in types.items() if t != "*"]
    rels = []
    for pt, children in sd["relations"].items():
        cs = []
        for ct, spec in children.items():
            merged = dict(types.get("*", {}))
            merged.update(types.get(ct, {}))
            merged.update(spec)
            lo, hi, zero = count_of(merged)     # `:count` is merged like every other key of the three layers
            layer = layer_of(spec)
            if merged.get(":callback"):
                layer = layer + [[KEYS["cb"], sp("fixed", 1)]]
            cs.append({"type": TYPES[ct], "lo": lo, "hi": hi, "zero": zero, "layer": layer})
        rels.append([TYPES[pt], cs])
    return {"glob": glob, "types": tl, "rels": rels}


def value_of(key, v, spec_val=None):
    if key == "h":
        return [int(x) for x in str(v).split(".")]
    if key == "i":
        return [int(v)]
    if isinstance(v, bool):
        return [1 if v else 0]
    if isinstance(v, int):
        return [v]
    if isinstance(v, float):
        if key == "d":  # JavaScript time stamp (ms, end of the day in UTC)
            days = round(v / 86400000.0) - 1 - (datetime(D0.year, D0.month, D0.day, tzinfo=timezone.utc).timestamp() / 86400.0)
            return [int(round(days))]
        return [round(v * 1e6)]
    if isinstance(v, date):
        return [(v - D0).days]
    if isinstance(v, str):
        if key == "txt":
            return [1]
        return [STR_CODES.get(v, -1)]
    return [-1]


def flatten(tree):
    order = []

    def walk(nodes, parent):
        for nd in nodes:
            order.append((nd, parent))
            walk(nd.children, len(order))

    walk(tree.children, 0)
    ident = {id(nd): i + 1 for i, (nd, _) in enumerate(order)}
    g = {"n": len(order), "par": [p for _, p in order], "kids": [[ident[id(c)] for c in nd.children] for nd, _ in order],
         "top": [ident[id(c)] for c in tree.children], "typ": [], "att": []}
    kinds_ok = True
    for nd, _ in order:
        data = nd.data
        d = data._dict if isinstance(data, DictWrapper) else data._d
        t = d.get("ty", -1)
        g["typ"].append(t if isinstance(t, int) else -1)
        g["att"].append(sorted([[KEYS.get(k, 99), value_of(k, v)] for k, v in d.items()]))
        if isinstance(tree, TypedTree):
            inv = {v: k for k, v in TYPES.items()}
            kinds_ok = kinds_ok and nd.kind == inv.get(t)
    return g, kinds_ok


def library(rng):
    """structure definitions: relation graphs, fixed / randomized counts, every randomizer class, probabilities"""
    defs = []
    defs.append(("two-level fixed", {
        "name": "t1",
        "types": {"*": {"icon": "gear", "g": 3}, "folder": {"icon": "bolt"}, "leaf": {"icon": "sun", "g": 4}},
        "relations": {"__root__": {"folder": {":count": 2, "ty": 1, "i": "{idx}", "h": "{hier_idx}"}},
                      "folder": {"item": {":count": 3, "ty": 2, "i": "{idx}", "h": "{hier_idx}", "icon": "star"},
                                 "leaf": {":count": 1, "ty": 3, "h": "{hier_idx}", "icon": "moon"}}}}))
    defs.append(("random counts + numbers", {
        "types": {"*": {"g": 7}, "item": {"num": RangeRandomizer(10, 13)}},
        "relations": {"__root__": {"folder": {":count": RangeRandomizer(1, 4), "ty": 1, "i": "{idx}"}},
                      "folder": {"item": {":count": RangeRandomizer(0, 3), "ty": 2, "h": "{hier_idx}", "f": RangeRandomizer(0.5, 1.5)},
                                 "note": {":count": RangeRandomizer(1, 3, probability=0.5), "ty": 4, "i": "{idx}",
                                          "flag": SparseBoolRandomizer(probability=0.5)}},
                      "item": {"leaf": {":count": RangeRandomizer(0, 2), "ty": 3, "h": "{hier_idx}",
                                        "v": ValueRandomizer(5, probability=0.3)}}}}))
    defs.append(("dates, samples, text, factory, callback", {
        "name": "t3",
        "types": {"*": {":factory": Holder}, "leaf": {"s": SampleRandomizer([3, 4, 5])}},
        "relations": {"__root__": {"folder": {":count": 2, "ty": 1, "d": DateRangeRandomizer(date(2020, 2, 1), 10, as_js_stamp=False),
                                              "txt": TextRandomizer("$(noun)"), ":callback": add_cb}},
                      "folder": {"leaf": {":count": RangeRandomizer(1, 3), "ty": 3, "i": "{idx}", "h": "{hier_idx}",
                                          "d": DateRangeRandomizer(date(2020, 1, 5), date(2020, 1, 9), probability=0.6),
                                          "num": RangeRandomizer(1, 3, probability=0.5, none_value=0)},
                                 "note": {":count": 1, "ty": 4, "txt": BlindTextRandomizer(sentence_count=1),
                                          "flag": ValueRandomizer(1, probability=1.0)}}}}))
    defs.append(("js stamps, sample counts, nested hier", {
        "types": {"*": {"g": 1}},
        "relations": {"__root__": {"folder": {":count": 2, "ty": 1, "h": "{hier_idx}"}},
                      "folder": {"item": {":count": RangeRandomizer(1, 3), "ty": 2, "h": "{hier_idx}", "i": "{idx}",
                                          "d": DateRangeRandomizer(date(2020, 3, 1), 5)},      # as_js_stamp=True (default)
                                 "note": {":count": 2, "ty": 4, "i": "{idx}", "s": SampleRandomizer([3, 4, 5], counts=[1, 5, 1])}},
                      "item": {"leaf": {":count": 2, "ty": 3, "h": "{hier_idx}", "i": "{idx}",
                                        "f": RangeRandomizer(-1.0, 1.0, probability=0.7)}}}}))
    defs.append(("one type below two parents", {
        "types": {"leaf": {"icon": "gear"}},
        "relations": {"__root__": {"folder": {":count": 2, "ty": 1, "i": "{idx}"}, "item": {":count": 1, "ty": 2}},
                      "folder": {"leaf": {":count": 1, "ty": 3, "icon": "moon", "h": "{hier_idx}"}},
                      "item": {"leaf": {":count": 3, "ty": 3, "g": 5, "i": "{idx}"}}}}))
    defs.append(("counts from the type layers", {
        "types": {"*": {":count": 2, "icon": "gear"}, "item": {":count": RangeRandomizer(1, 3)}, "leaf": {"g": 5}},
        "relations": {"__root__": {"folder": {"ty": 1, "i": "{idx}"}},                      # 2 (global default)
                      "folder": {"item": {"ty": 2, "i": "{idx}"},                             # 1..3 (type default)
                                 "leaf": {":count": 1, "ty": 3, "h": "{hier_idx}"}},          # 1 (relation wins)
                      "item": {"leaf": {"ty": 3, "i": "{idx}"}}}}))                           # 2 (global default)
    defs.append(("macros produced by randomizers", {
        "relations": {"__root__": {"folder": {":count": 2, "ty": 1, "i": ValueRandomizer("{idx}", probability=1.0), "h": "{hier_idx}"}},
                      "folder": {"item": {":count": RangeRandomizer(1, 3), "ty": 2, "i": SampleRandomizer(["{idx}"]),
                                          "h": SampleRandomizer(["{hier_idx}"])},
                                 "leaf": {":count": 2, "ty": 3, "i": "{idx}", "h": ValueRandomizer("{hier_idx}", probability=1.0)}}}}))
    defs.append(("probability 0 and 1", {
        "relations": {"__root__": {"folder": {":count": 1, "ty": 1, "flag": SparseBoolRandomizer(probability=0.0),
                                              "v": ValueRandomizer(9, probability=1.0)}},
                      "folder": {"item": {":count": RangeRandomizer(2, 3, probability=0.0), "ty": 2},
                                 "leaf": {":count": 2, "ty": 3, "i": "{idx}"}}}}))
    return defs


def _draws(args):
    di, seeds, base = args
    out = []
    name, sd = library(None)[di]
    adef = abstract_def(sd)
    for k, seed in enumerate(seeds):
        for cls in (Tree, TypedTree):
            random.seed(seed)
            rec = {"id": base + 2 * k + (cls is TypedTree), "name": f"{name}/{cls.__name__}", "def": adef, "seed": seed,
                   "g": {"n": 0, "par": [], "kids": [], "top": [], "typ": [], "att": []}, "cls_ok": True, "kinds_ok": True}
            try:
                t = cls.build_random_tree(sd)
                rec["g"], rec["kinds_ok"] = flatten(t)
                rec["cls_ok"] = type(t) is cls
                rec["status"] = "ok"
            except Exception as e:  # noqa: BLE001
                rec["status"] = type(e).__name__
            out.append(rec)
    return out


def tlc_gen(bad):
    cfg = WORK / "cfg" / f"gen-{os.getpid()}-{time.time_ns()}.cfg"
    cfg.parent.mkdir(parents=True, exist_ok=True)
    write_cfg(cfg, constants={"BadGen": json.dumps(bad)}, invariants=["AllConform"])
    try:
        return run_tlc("MC_Gen.tla", cfg, workers=8, tag="gen")
    finally:
        cfg.unlink(missing_ok=True)


def run(prop: str, tier: str) -> int:
    seed = env_seed()
    rep = Report("C20", tier, seed)
    rep.dedupe_on_why = False
    quick = tier == "quick"
    rep.rule = ("TLC checks that every outcome of the nondeterministic generator model (MC_Gen) satisfies Conforms and "
                "that four mutated generators are rejected; a library of structure definitions (relation graphs, fixed and "
                "randomized counts, every randomizer class, probabilities 0/mid/1, :factory, :callback) x seeds x "
                "Tree/TypedTree is built with the real generator and TLC (TraceGen) evaluates Conforms clause by clause. "
                "distinct = (definition, class, generated tree).")
    rep.assumptions = ["text randomizers: only presence is checked", "the distribution of random values is not checked, only "
                       "their range; int ranges are half-open [min, max) as in the user guide's sample output",
                       "{idx} is the 1-based index among the siblings created by the same relation"]
    good = tlc_gen("none")
    if not good.ok:
        raise P.TLCError(f"generator model: {good.errors[:3]} {good.tail[-6:]}")
    rep.add_mc(good, "generator model: every outcome conforms")
    good.cleanup()
    for bad in ("count", "order", "idx", "merge"):
        r = tlc_gen(bad)
        if not any("violated" in e for e in r.errors):
            raise P.TLCError(f"non-vacuity: mutated generator '{bad}' was not rejected by TLC")
        r.cleanup()
    rep.stages.append({"stage": "non-vacuity: 4 mutated generators rejected by TLC"})
    nseeds = 60 if quick else 12000
    ndefs = len(library(None))
    jobs, base = [], 0
    for di in range(ndefs):
        seeds = [seed * 100000 + di * 10007 + s for s in range(nseeds)]
        for c in range(0, nseeds, max(1, nseeds // 8)):
            chunk = seeds[c:c + max(1, nseeds // 8)]
            jobs.append((di, chunk, base))
            base += 2 * len(chunk)
    with mp.get_context("fork").Pool(16) as pool:
        outs = pool.map(_draws, jobs)
    recs = [r for o in outs for r in o]
    mism, checked, wall = P.validate_records(recs, module="TraceGen.tla", tag="gen", shards=16, nutree_consts=False)
    if checked != len(recs):
        raise P.TLCError(f"validated {checked} of {len(recs)}")
    byid = {r["id"]: r for r in recs}
    rep.validated += len(recs)
    rep.evaluations += len(recs)
    for r in recs:
        rep.nontrivial.add(hash((r["name"], json.dumps(r["g"]))))
    rep.add_sample({"name": recs[0]["name"], "seed": recs[0]["seed"], "g": recs[0]["g"]})
    for m in mism:
        if m["property"] == "C20":
            rec = byid.get(m["id"])
            rep.mismatch(m, {"name": rec["name"], "seed": rec["seed"], "g": rec["g"]} if rec else None)
    rep.stages.append({"stage": "draws", "definitions": ndefs, "draws": len(recs)})
    return rep.finish()


if __name__ == "__main__":
    sys.exit(run("C20", sys.argv[1] if len(sys.argv) > 1 else "quick"))
