"""Random operation histories on a live tree (driver for the code -> spec direction).

The operations have the same record shape as those enumerated by MC_Core!Ops, but the trees grow
beyond the exhaustive bound.  Arguments are drawn from what the documentation declares valid,
plus the documented-invalid ones (foreign `before` node, move into own branch, ...)."""
from __future__ import annotations

import random

POS_NONE = {"t": "none", "v": 0}


def _desc(st, x):
    out = []
    stack = list(st["kids"][x - 1])
    while stack:
        c = stack.pop()
        out.append(c)
        stack.extend(st["kids"][c - 1])
    return out


def _kids(st, p):
    return st["top"] if p == 0 else st["kids"][p - 1]


def random_pos(st, p, rng, allow_bad=False, oob=True):
    kids = _kids(st, p)
    r = rng.random()
    if r < 0.25 or not kids:
        return rng.choice([POS_NONE, {"t": "true", "v": 0}, {"t": "false", "v": 0}, {"t": "idx", "v": 0}])
    if r < 0.52:
        return {"t": "idx", "v": rng.randrange(0, len(kids) + 1)}
    if r < 0.55 and oob:
        return {"t": "idx", "v": len(kids) + rng.randint(1, 2)}   # beyond the end: appended or refused-unchanged
    if r < 0.95 or not allow_bad:
        return {"t": "node", "v": rng.choice(kids)}
    if rng.random() < 0.25:
        return {"t": "other", "v": 0}       # neither bool, int nor node
    others = [i for i in range(1, st["n"] + 1) if st["par"][i - 1] != -1 and i not in kids]
    if others:
        return {"t": "node", "v": rng.choice(others)}
    return POS_NONE


def random_op(st, rng: random.Random, *, D, typed=False, kinds=(0,), xids=(0,), mk=1, meta_vals=0, max_nodes=14,
              families=None, is_str=True, src_n=3, src_live=(1, 2, 3)):
    live = [i for i in range(1, st["n"] + 1) if st["par"][i - 1] != -1]
    parents = [0] + live
    room = max_nodes - len(live)
    fam = families or ["add", "add", "add_node", "add_tree", "move", "move", "remove", "sort", "set_data", "meta",
                       "filter", "badpos"]
    for _ in range(50):
        f = rng.choice(fam)
        if f == "add" and room >= 1:
            d = rng.randint(1, D)
            v = rng.random()
            if v < 0.6 or not live:
                p = rng.choice(parents)
                op = {"name": "add_child", "p": p, "d": d, "xid": rng.choice(list(xids)), "k": rng.choice(list(kinds)),
                      "pos": random_pos(st, p, rng)}
                if rng.random() < 0.15:
                    op["nid"] = 1      # the caller chooses the node_id
                return op
            if v < 0.8:
                return {"name": rng.choice(["append_child", "prepend_child"]), "p": rng.choice(live), "d": d, "xid": 0,
                        "k": rng.choice(list(kinds))}
            return {"name": rng.choice(["prepend_sibling", "append_sibling"]), "x": rng.choice(live), "d": d, "xid": 0}
        if f == "badpos" and room >= 1 and live and rng.random() < 0.3:
            return {"name": "add_child_nid", "p": rng.choice(parents), "d": rng.randint(1, D), "x": rng.choice(live)}
        if f == "badpos" and room >= 1 and len(live) >= 2:
            p = rng.choice(parents)
            others = [i for i in live if i not in _kids(st, p)]
            if others:
                return {"name": "add_child", "p": p, "d": rng.randint(1, D), "xid": 0, "k": 0,
                        "pos": {"t": "node", "v": rng.choice(others)}}
        if f == "add_node" and live:
            if rng.random() < 0.7:
                x = rng.choice(live)
                deep = rng.random() < 0.5
                need = 1 + (len(_desc(st, x)) if deep else 0)
                if need <= room:
                    p = rng.choice(parents)
                    return {"name": "add_node", "p": p, "src": "T", "x": x, "k": 0, "deep": deep,
                            "pos": random_pos(st, p, rng), "via": rng.choice(["add_child", "copy_to"])}
            elif room >= src_n:
                p = rng.choice(parents)
                return {"name": "add_node", "p": p, "src": "S", "x": rng.choice(list(src_live)), "k": 0,
                        "deep": rng.random() < 0.5, "pos": random_pos(st, p, rng), "via": "add_child"}
        if f == "add_tree" and room >= src_n:
            p = rng.choice(parents)
            v = rng.random()
            if v < 0.06:
                return {"name": rng.choice(["add_empty_tree", "empty_tree_copy_to"]), "p": p, "deep": True,
                        "pos": random_pos(st, p, rng, oob=False)}
            if v < 0.5:
                return {"name": "add_tree", "p": p, "deep": rng.random() < 0.6, "pos": random_pos(st, p, rng)}
            if v < 0.7:
                return {"name": "tree_copy_to", "p": p, "deep": rng.random() < 0.6}
            if live:
                x = rng.choice(live)
                deep = rng.random() < 0.5
                if deep and p in _desc(st, x):
                    deep = False  # doc-silent: not driven
                if (len(_desc(st, x)) if deep else len(_kids(st, x))) <= room:
                    return {"name": "copy_children_to", "p": p, "src": "T", "x": x, "deep": deep}
        if f == "move" and live:
            x = rng.choice(live)
            if rng.random() < 0.05:
                return {"name": "move_foreign", "x": x}
            p = rng.choice(parents)
            pos = random_pos(st, p, rng)
            if st["par"][x - 1] == p and pos["t"] == "idx" and pos["v"] != 0:
                pos = POS_NONE  # int positions inside the same parent are ambiguous: not driven
            if pos["t"] == "node" and pos["v"] == x:
                pos = POS_NONE
            if rng.random() < 0.04:   # invalid: before=<node that is not a child of the target>
                others = [i for i in live if i != x and i not in _kids(st, p)]
                if others:
                    pos = {"t": "node", "v": rng.choice(others)}
            return {"name": "move_to", "x": x, "p": p, "pos": pos}
        if f == "remove" and live:
            v = rng.random()
            if v < 0.6:
                return {"name": "remove", "x": rng.choice(live), "keep": rng.random() < 0.5,
                        "clones": rng.random() < 0.3}
            if v < 0.75:
                return {"name": "remove_children", "p": rng.choice(live)}
            if v < 0.78:
                return {"name": "clear"}
            if v < 0.9:
                return {"name": "del", "key": {"t": "data", "v": rng.randint(1, D)}}
            return {"name": "del", "key": {"t": "nid", "v": rng.choice(live)}}
        if f == "sort":
            rank = list(range(1, D + 1))
            if rng.random() < 0.5:
                rng.shuffle(rank)
                if rng.random() < 0.5:
                    rank = [min(r, 2) for r in rank]  # ties: stability matters
            return {"name": "sort_children", "p": rng.choice(parents), "rank": rank, "rev": rng.random() < 0.5,
                    "deep": rng.random() < 0.5}
        if f == "set_data" and live:
            x = rng.choice(live)
            if rng.random() < 0.2:
                return {"name": "rename", "x": x, "d": rng.randint(1, D), "isstr": is_str}
            d = rng.randint(0, D)
            xid = rng.choice(list(xids))
            return {"name": "set_data", "x": x, "d": d, "xid": xid, "wc": rng.choice(["none", "true", "false"])}
        if f == "meta" and live and meta_vals:
            x = rng.choice(live)
            v = rng.random()
            if v < 0.4:
                return {"name": "set_meta", "x": x, "key": rng.randint(1, mk), "val": rng.randint(0, meta_vals)}
            if v < 0.6:
                return {"name": "clear_meta", "x": x, "key": rng.randint(0, mk)}
            return {"name": "update_meta", "x": x, "m": [rng.randint(0, meta_vals) for _ in range(mk)],
                    "replace": rng.random() < 0.5}
        if f == "filter" and live and rng.random() < 0.3:
            return {"name": "filter", "p": rng.choice(parents),
                    "v": [rng.choice(["T", "T", "T", "F", "F", "skip", "skipKeep", "select", "stop"]) for _ in range(st["n"])],
                    "raise": rng.random() < 0.5}
    return {"name": "clear"}
