"""./check <ID> --replay <file>: re-execute one recorded case against the current /repo and let TLC judge it."""
from __future__ import annotations

import json

from . import core, flavours, pipeline as P, trace
from .findings import load_findings, match_finding


def replay_file(prop: str, path: str) -> int:
    data = json.loads(open(path).read())
    rec = data["record"]
    if prop in ("C06", "C08", "C09", "C10", "C15", "C16", "C17") or (prop == "C07" and "st" in (rec or {})):
        from . import checks_query
        data["path"] = path
        return checks_query.replay(prop, data)
    if prop not in ("C01", "C02", "C03", "C04", "C07", "C13") or "pre" not in (rec or {}) or rec.get("op", {}).get("name") in ("fault", "stale", "build_source") \
            or rec.get("fl") == "suite":
        # serial / diff / lock / fs / generator cases, fault injections and calls through stale handles (they need the
        # history that removed the node) are re-run through the property's whole
        # quick check (the recorded case is part of what it enumerates)
        from . import check as C
        print(f"replaying {path} through the quick check of {prop}")
        return C.main(["check", prop, "quick"])
    flname = rec["fl"]
    fl = flavours.make(flname.split("+")[0], flname.endswith("+typed"))
    mk = len(rec["pre"]["meta"][0]) if rec["pre"]["meta"] else 1
    b = core.build(rec["pre"], fl, mk)
    src_xid = 11 if "src" in rec and 11 in rec["src"].get("did", []) else 0
    src = core.build(P.src_state(fl, mk, src_xid), fl, mk, name="src")
    new = trace.run_step(b, rec["op"], 1, src, 4, pre_st=rec["pre"])
    mism, checked, _ = P.validate_records([new], defdid=fl.defdid, mk=mk)
    mism = [m for m in mism if m["property"] == prop]
    print("replayed:", json.dumps({k: new.get(k) for k in ("fl", "pre", "op", "status", "post", "bad")})[:2000])
    findings = load_findings(prop)
    bad = 0
    for m in mism:
        f = match_finding(findings, m, new)
        if f:
            print(f"KNOWN-FINDING: property={prop} {f['id']}: {f['description']}")
        else:
            bad += 1
            print(f"  clause={m['clause']} why={m['why']}")
    if bad:
        print(f"VIOLATION property={prop} replay={path}")
        return 1
    print(f"{prop}: replay agrees with the specification")
    return 0
