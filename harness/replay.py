"""spec -> code: replay transitions emitted by TLC (MC_Core) against the real library."""
from __future__ import annotations

import json
import sys
from collections import Counter

from . import core, flavours


def probe_dids(fl, maxd):
    ds = [fl.model_default_did(d) for d in range(1, maxd + 1)]
    return sorted(set(ds) | {11, 12})


def replay_transition(rec, fl, src_state=None, mk=1, maxd=4):
    """rec = {pre, op, res}.  Returns list of failing clauses (possibly empty), or None if n/a."""
    op = rec["op"]
    if not core.op_applicable(op, fl):
        return None
    b = core.build(rec["pre"], fl, mk)
    src = core.build(src_state, fl, mk, name="src") if src_state is not None else None
    pre_nids = core.node_ids(b)
    src_before = core.project(src)["st"] if src is not None else None
    status, r = core.execute(b, op, src)
    try:
        post = core.project(b, probe_dids(fl, maxd), pre_nids)
    except core.Unprojectable as e:
        post = f"unprojectable:{e}"
    except Exception as e:  # noqa: BLE001
        post = f"unprojectable:{type(e).__name__}:{e}"
    ret = core.ret_id(b, r) if status == "ok" else 0
    fails = core.compare(op, rec["res"], status, ret, post, rec["pre"])
    if not isinstance(post, str):
        exp_iter = core.seq(rec["res"]["st"].get("iter", []))
        if post["obs"]["iter"] != exp_iter:
            fails.append(("obs.iter", f"expected {exp_iter}, got {post['obs']['iter']}"))
    if src is not None:
        try:
            src_after = core.project(src)["st"]
            if src_after != src_before:
                fails.append(("source", "source tree changed by a copy operation"))
        except Exception as e:  # noqa: BLE001
            fails.append(("source", f"source tree unprojectable: {e}"))
    return fails, status


if __name__ == "__main__":
    path = sys.argv[1]
    flname = sys.argv[2] if len(sys.argv) > 2 else "str"
    fl = flavours.make(flname.split("+")[0], "+typed" in flname)
    cnt = Counter()
    ex = {}
    n = 0
    src_state = json.load(open(sys.argv[3])) if len(sys.argv) > 3 else None
    for line in open(path):
        if not line.startswith('"{'):
            continue
        rec = json.loads(json.loads(line))
        if "op" not in rec:
            continue
        n += 1
        out = replay_transition(rec, fl, src_state)
        if out is None:
            continue
        fails, status = out
        if fails:
            key = (rec["res"]["why"], fails[0][0], status)
            cnt[key] += 1
            ex.setdefault(key, (rec, fails))
    print(n, "transitions")
    for k, v in sorted(cnt.items(), key=lambda kv: -kv[1]):
        print(v, k)
        rec, fails = ex[k]
        print("    pre:", {k2: rec["pre"][k2] for k2 in ("top", "kids", "dat", "did")}, "op:", rec["op"])
        print("    fails:", fails[:3])
