"""Check C18: snapshot operations honour the tree lock."""
from __future__ import annotations

import json
import os
import random
import shutil
import sys
import tempfile
import time

from . import lock as L, pipeline as P
from .findings import Report, env_seed
from .tlcrun import WORK, run_tlc, write_cfg


def tlc_lock(consts, *, invariants, properties=(), view=None, workers=4, tag="lock"):
    cfg = WORK / "cfg" / f"{tag}-{os.getpid()}-{time.time_ns()}.cfg"
    cfg.parent.mkdir(parents=True, exist_ok=True)
    write_cfg(cfg, constants=consts, invariants=invariants, properties=properties, view=view)
    try:
        return run_tlc("NutreeLock.tla", cfg, workers=workers, tag=tag)
    finally:
        cfg.unlink(missing_ok=True)


def consts(writers, readers, nested, locked=None, emit=False):
    q = lambda xs: "{" + ", ".join(json.dumps(x) for x in xs) + "}"  # noqa: E731
    return {"Writers": q(writers), "Readers": q(readers), "Nested": nested,
            "LockedReaders": q(readers if locked is None else locked), "EmitOn": emit}


SAFETY = ["LockSane", "SnapshotCommitted", "NestedSeesOwn", "NoDeadlock"]


def schedules(rep, writers, readers, nested, label, limit=None):
    res = tlc_lock(consts(writers, readers, nested, emit=True), invariants=["LockSane", "SnapshotCommitted", "EmitHist"],
                   workers=1, tag="lockhist")
    if not res.ok:
        raise P.TLCError(f"{label}: {res.errors[:3]} {res.tail[-6:]}")
    rep.add_mc(res, label)
    hs = [r["hist"] for r in res.json_lines() if "hist" in r]
    res.cleanup()
    return hs if limit is None else hs[:limit]


def validate(rep, traces, label):
    if not traces:
        return
    mism, checked, wall = P.validate_records(traces, module="TraceLock.tla", tag="lk", shards=8, nutree_consts=False)
    nev = sum(len(t["events"]) for t in traces)
    if checked != nev:
        raise P.TLCError(f"{label}: validated {checked} of {nev} events")
    byid = {t["id"]: t for t in traces}
    rep.validated += len(traces)
    rep.evaluations += len(traces)
    for t in traces:
        rep.nontrivial.add(hash((t["op"], json.dumps([(e["t"], e["a"]) for e in t["events"]]))))
    rep.add_sample({"op": traces[0]["op"], "forced": traces[0]["forced"], "events": [(e["t"], e["a"], e["v"]) for e in traces[0]["events"]]})
    for m in mism:
        if m["property"] == "C18":
            t = byid.get(m["id"])
            rep.mismatch(m, {"op": t["op"], "events": [(e["t"], e["a"], e["v"]) for e in t["events"]]} if t else None)
    rep.stages.append({"stage": label, "traces": len(traces), "events": nev})


def run(prop: str, tier: str) -> int:
    seed = env_seed()
    rep = Report("C18", tier, seed)
    rep.dedupe_on_why = False
    quick = tier == "quick"
    rng = random.Random(seed)
    rep.rule = ("TLC checks NoForeignRead, SnapshotCommitted, re-entrancy, deadlock freedom and termination on all "
                "interleavings of the lock model; every complete schedule TLC prints (hist) is forced on real threads per "
                "snapshot operation by a cooperative scheduler (the tree's own lock object wrapped by a delegating "
                "tracer; reads seen through the operation's user callbacks, snapshots through their content); plus "
                "free-running multi-thread runs. Every run's event trace is validated by TLC (TraceLock). "
                "distinct = (operation, event sequence).")
    rep.assumptions = ["reads of copy() and copy_to() cannot be announced (no user callback): they are checked through "
                       "the snapshot content and the lock events",
                       "writers mutate only inside `with tree:` (the property's premise)",
                       "safety timeouts only abort the machinery (exit 2), they never decide a verdict"]
    # --- the protocol itself, all interleavings
    big = tlc_lock(consts(["w1", "w2"], ["r1", "r2"], True), invariants=SAFETY,
                   properties=["NoForeignRead", "MutateOwned", "Termination"], view="ViewNoHist", tag="lockmc")
    if not big.ok:
        raise P.TLCError(f"lock model: {big.errors[:3]} {big.tail[-6:]}")
    rep.add_mc(big, "lock model 2 writers (nested) x 2 readers: safety + liveness")
    broken = tlc_lock(consts(["w1"], ["r1", "r2"], True, locked=["r1"]), invariants=SAFETY,
                      properties=["NoForeignRead"], view="ViewNoHist", tag="lockbroken")
    if not any("violated" in e for e in broken.errors):
        raise P.TLCError("non-vacuity: the model with a reader that does not take the lock was not rejected by TLC")
    rep.stages.append({"stage": "non-vacuity: unlocked reader variant rejected by TLC", "errors": broken.errors[:2]})
    broken.cleanup()
    big.cleanup()
    tmpdir = tempfile.mkdtemp(prefix="nutree-lock-")
    try:
        # --- spec -> code: forced schedules
        h1 = schedules(rep, ["w1"], ["r1"], True, "schedules 1 writer (nested) x 1 reader")
        h2 = schedules(rep, ["w1"], ["r1", "r2"], False, "schedules 1 writer x 2 readers", limit=None)
        if quick:
            rng.shuffle(h2)
            h2 = h2[:150]
        traces, tid = [], 0
        nested_ops = ["to_dict_list", "copy", "save_stream", "copy_to", "to_dotfile", "filtered", "with"]
        for oi, op in enumerate(L.OPS):
            hs = h1 if not quick else h1[oi::3]
            for k, h in enumerate(hs):
                tid += 1
                rb = (False, True, "split")[k % 3]
                nop = nested_ops[(k + oi) % len(nested_ops)]
                if rb == "split" and nop == "copy_to":
                    nop = "copy"     # (copy_to of an EMPTY tree is refused with ValueError)
                if op == "copy_to_same":
                    rb = False       # (the target node must stay part of the tree)
                traces.append(L.run_trace(op, schedule=h, nested=True, nested_op=nop, tmpdir=tmpdir, trace_id=tid, rebuild=rb))
        validate(rep, traces, "forced: 1 writer (nested) x 1 reader, every operation")
        traces = []
        for oi, op in enumerate(L.OPS):      # the same on a TypedTree (the kind list belongs to the snapshot)
            for k, h in enumerate(h1[oi::4] if quick else h1):
                tid += 1
                traces.append(L.run_trace(op, schedule=h, nested=True, nested_op=nested_ops[(k + oi) % len(nested_ops)],
                                          tmpdir=tmpdir, trace_id=tid, typed=True))
        validate(rep, traces, "forced: TypedTree, 1 writer (nested) x 1 reader, every operation")
        traces = []
        for oi, op in enumerate(L.OPS):      # a subclass whose `with tree:` takes a lock of its own
            for k, h in enumerate(h1[oi::6] if quick else h1[oi::2]):
                tid += 1
                nop = nested_ops[(k + oi) % len(nested_ops)]
                traces.append(L.run_trace(op, schedule=h, nested=True, nested_op=nop, tmpdir=tmpdir, trace_id=tid, shared=True))
        validate(rep, traces, "forced: subclass with its own lock behind `with tree:`, every operation")
        traces = []
        for k, h in enumerate(h2):
            tid += 1
            rops = {"r1": L.OPS[k % len(L.OPS)], "r2": L.OPS[(k // 3 + 4) % len(L.OPS)]}
            traces.append(L.run_trace("mix", schedule=h, nested=False, writers=("w1",), readers=("r1", "r2"),
                                      reader_ops=rops, tmpdir=tmpdir, trace_id=tid))
        validate(rep, traces, "forced: 1 writer x 2 readers, mixed operations")
        rep.extra["schedules_forced"] = tid
        # --- code -> spec: free running
        traces = []
        for k in range(150 if quick else 3000):
            tid += 1
            rops = {f"r{i}": L.OPS[(k + 2 * i) % len(L.OPS)] for i in (1, 2, 3)}
            traces.append(L.run_trace("free", schedule=None, nested=True, nested_op=nested_ops[k % len(nested_ops)],
                                      writers=("w1", "w2"), readers=("r1", "r2", "r3"), reader_ops=rops, tmpdir=tmpdir,
                                      trace_id=tid))
        validate(rep, traces, "free-running: 2 writers (nested) x 3 readers")
    except L.MachineryTimeout as e:
        raise P.TLCError(f"scheduler timeout: {e}") from e
    finally:
        shutil.rmtree(tmpdir, ignore_errors=True)
    rep.exhaustive = True
    return rep.finish()


if __name__ == "__main__":
    sys.exit(run("C18", sys.argv[1] if len(sys.argv) > 1 else "quick"))
