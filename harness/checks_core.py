"""Checks for the mutation core: C01, C02, C03, C04, C07, C13 (refusal half).

All of them run the same pipeline (pipeline.py) over MC_Core / TraceCore; they differ in which
operation families, flavours and bounds are emphasised and in which verdict clauses (tagged with the
property id by TraceCore.tla) they report."""
from __future__ import annotations

import json
import random
import sys
import time

from . import core, flavours, pipeline as P, randops, trace
from .findings import Report, env_seed

ALL_OPS = ["add", "badpos", "add_node", "add_tree", "move", "remove", "sort", "set_data", "filter"]
ALL_OPS_X = ALL_OPS + ["filterx"]


def slim(rec):
    return {k: rec[k] for k in ("fl", "pre", "op", "status", "post") if k in rec}


def nontrivial_key(rec):
    changed = rec.get("status") != "ok" or rec.get("post") is None or \
        any(rec["post"].get(k) != rec["pre"].get(k) for k in ("n", "top", "kids", "dat", "did", "knd", "meta", "par"))
    if not changed:
        return None
    return (rec.get("fl"), json.dumps(rec["pre"], sort_keys=True), json.dumps(rec["op"], sort_keys=True))


def absorb(rep: Report, recs, mism, props):
    failed = [r for r in recs if "build_failed" in r]
    recs = [r for r in recs if "build_failed" not in r]
    for r in failed[:50]:
        # the library refused the add_child calls that construct a state of the specification
        for p in props:
            rep.mismatch({"id": r["id"], "property": p, "clause": "state_not_constructible:" + r["build_failed"].split(":")[0],
                          "why": "build"}, {"fl": r["fl"], "pre": r["pre"], "op": r["op"], "status": r["build_failed"]})
    byid = {r["id"]: r for r in recs}
    rep.validated += len(recs)
    rep.evaluations += len(recs)
    for r in recs:
        k = nontrivial_key(r)
        if k is not None:
            rep.nontrivial.add(hash(k))
    for r in recs[:: max(1, len(recs) // 2)][:2]:
        rep.add_sample(slim(r))
    for m in mism:
        if m["property"] in props:
            rep.mismatch(m, byid.get(m["id"]))


# ------------------------------------------------------------------------------------------------
def _is_filterx(op):
    return op.get("name") == "filter" and any(v not in ("T", "F") for v in core.seq(op.get("v", [])))


def stage_exhaustive(rep, props, *, label, consts, flnames, defdid="hash", mk=1, maxd=4, light=(), only=None):
    """TLC enumerates every (state, op) in the bound; each is executed per flavour and validated."""
    t0 = time.time()
    c = dict(consts)
    c["EmitOn"] = True
    res = P.mc_core(c, defdid=defdid, workers=1, tag="emit")
    if not res.ok:
        raise P.TLCError(f"{label}: TLC failed on the specification itself: {res.errors[:3]} {res.tail[-10:]}")
    rep.add_mc(res, label + ":emit")
    # one dict object per distinct pre-state (TLC prints the state with every transition; millions of them in the
    # thorough tier would not fit into memory otherwise)
    interned = {}
    pairs = []
    for i, r in enumerate(res.json_lines()):
        if "op" in r:
            k = json.dumps(r["pre"], sort_keys=True)
            pairs.append((i, interned.setdefault(k, r["pre"]), r["op"]))
    del interned
    res.cleanup()
    if only:      # the enumeration needs the other operations to reach its states; only these are executed
        pairs = [p for p in pairs if p[2]["name"] in only or (p[2]["name"], p[2].get("via")) in only]
    BATCH = 150_000
    for fn in flnames:
        # the large filter-verdict alphabet is data-flavour independent: executed for the first flavour only
        use = pairs if fn not in light else [p for p in pairs if not _is_filterx(p[2])]
        nrec = 0
        for b0 in range(0, len(use), BATCH):     # bounded memory: execute, validate, absorb, forget
            recs = P.execute_pairs(use[b0:b0 + BATCH], fn, mk=mk, maxd=maxd,
                                   src_xid=11 if 11 in set(consts.get("Xids", ())) else 0)
            mism, checked, wall = P.validate_records(recs, defdid=defdid, mk=mk)
            if checked != len([r for r in recs if "build_failed" not in r]):
                raise P.TLCError(f"{label}: validated {checked} of {len(recs)} records")
            absorb(rep, recs, mism, props)
            nrec += len(recs)
            del recs, mism
        rep.stages.append({"stage": f"{label}:{fn}", "pairs": len(use), "records": nrec,
                           "wall_s": round(time.time() - t0, 1)})
    return pairs


def stage_mc_only(rep, *, label, consts, defdid="hash"):
    """larger bound, specification properties only (invariants + action laws on the spec)"""
    c = dict(consts)
    c["EmitOn"] = False
    res = P.mc_core(c, defdid=defdid, workers=16, tag="mc")
    if not res.ok:
        raise P.TLCError(f"{label}: TLC failed on the specification itself: {res.errors[:3]} {res.tail[-10:]}")
    rep.add_mc(res, label)


def _state_key(st):
    return json.dumps([st["top"], st["kids"], st["dat"], st["did"], st["knd"], st["meta"]])


def _build_src(fl, mk, xid, rid):
    """the foreign source tree is a state of the specification too (built by plain add_child calls): if the library
    refuses those calls, that is reported as a violation (state_not_constructible), not as a machinery failure"""
    st = P.src_state(fl, mk, xid)
    try:
        return core.build(st, fl, mk, name="src"), None
    except Exception as e:  # noqa: BLE001
        return None, {"id": rid, "fl": fl.name, "build_failed": f"source tree: {type(e).__name__}: {e}",
                      "op": {"name": "build_source"}, "pre": st}


REMOVING_OPS = {"remove", "remove_children", "clear", "del", "filter"}


def _stale_chunk(args):
    """(state, removing op) from TLC's enumeration; then every call of core.STALE_WHATS through the handle of every
    node that op removed: one fresh object per call, the call is a step of the specification ("stale") like any other"""
    chunk, flname, mk, maxd = args
    fl = P._fl(flname)
    out = []
    for rid, pre, op in chunk:
        try:
            b0 = core.build(pre, fl, mk)
            core.execute(b0, op, None)
            trace.snapshot(b0)
            ng = len(b0.grave)
        except Exception:  # noqa: BLE001   reported by the exhaustive stage
            continue
        for g in range(ng):
            for wi, what in enumerate(core.STALE_WHATS):
                b = core.build(pre, fl, mk)
                core.execute(b, op, None)
                try:
                    cur = trace.snapshot(b)
                except Exception:  # noqa: BLE001
                    break
                sop = {"name": "stale", "what": what, "g": g, "x": 1 if cur["n"] else 0, "d": 1 + (wi % 2), "after": op["name"]}
                out.append(trace.run_step(b, sop, rid * 200 + g * 20 + wi, None, maxd, pre_st=cur))
    return out


def stage_stale(rep, props, *, label, pairs, flnames, limit, mk=1, maxd=4):
    import multiprocessing as mp
    sel = [(i, pre, op) for i, pre, op in pairs if op["name"] in REMOVING_OPS and not _is_filterx(op)]
    if limit and len(sel) > limit:
        step = len(sel) / limit
        sel = [sel[int(k * step)] for k in range(limit)]
    for fn in flnames:
        chunks = [(sel[i:i + 40], fn, mk, maxd) for i in range(0, len(sel), 40)]
        with mp.get_context("fork").Pool(16, initializer=P._init_worker) as pool:
            outs = pool.map(_stale_chunk, chunks)
        recs = [r for o in outs for r in o]
        mism, checked, wall = P.validate_records(recs, mk=mk)
        absorb(rep, recs, mism, props)
        rep.stages.append({"stage": f"{label}:{fn}", "removing_steps": len(sel), "records": len(recs)})


def _maybe_stale(b, cur, rng, prob):
    """with probability prob (and a removed node at hand) the next step is a call through a stale handle"""
    if b.grave and rng.random() < prob:
        return {"name": "stale", "what": rng.choice(core.STALE_WHATS), "g": rng.randrange(len(b.grave)),
                "x": rng.randint(1, cur["n"]) if cur["n"] else 0, "d": rng.randint(1, 2)}
    return None


def _walk(args):
    """spec -> code: one random walk through TLC's (emitted) state graph, replayed on one live object.
    After every step the live object is projected; the walk continues from the spec state it shows."""
    seed, flname, steps, mk, maxd, base_id = args
    graph = _WALK_GRAPH
    rng = random.Random(seed)
    fl = flavours.make(flname.split("+")[0], flname.endswith("+typed"))
    b = core.build({"n": 0, "par": [], "kids": [], "top": [], "dat": [], "did": [], "knd": [], "meta": [],
                    "typed": fl.typed}, fl, mk)
    src, failed = _build_src(fl, mk, 0, base_id)
    if failed:
        return [failed]
    out = []
    for k in range(steps):
        try:
            cur = trace.snapshot(b)
        except Exception:  # noqa: BLE001  corrupted object: the step before was reported
            break
        ops = graph.get(_state_key(cur))
        if not ops:
            break  # the live object left the specification's state graph (reported by the step before)
        op = _maybe_stale(b, cur, rng, 0.1) or json.loads(rng.choice(ops))
        if not core.op_applicable(op, fl):
            continue
        rec = trace.run_step(b, op, base_id + k, src, maxd, pre_st=cur, extra={"hist": base_id, "step": k})
        out.append(rec)
        if "bad" in rec:
            break
    return out


_WALK_GRAPH = {}


def stage_walks(rep, props, *, label, pairs, flnames, walks, steps, seed, defdid="hash", mk=1, maxd=4):
    """multi-step behaviours of the specification (paths of TLC's state graph) on one live object"""
    import multiprocessing as mp
    global _WALK_GRAPH
    # state key -> operations as JSON text (plain strings are not tracked by the cyclic GC, so the forked workers
    # do not copy the graph page by page)
    graph = {}
    keyof = {}
    for _i, pre, op in pairs:
        k = keyof.get(id(pre))
        if k is None:
            k = keyof[id(pre)] = _state_key(core.norm_state(pre))
        graph.setdefault(k, []).append(json.dumps(op))
    del keyof
    _WALK_GRAPH = graph
    import gc
    gc.collect()
    gc.freeze()
    for fi, fn in enumerate(flnames):
        jobs = [(seed * 7907 + fi * 101 + w, fn, steps, mk, maxd, (w + 1) * 1000) for w in range(walks)]
        with mp.get_context("fork").Pool(16) as pool:
            outs = pool.map(_walk, jobs, chunksize=max(1, len(jobs) // 64))
        recs = [r for o in outs for r in o]
        mism, checked, wall = P.validate_records(recs, defdid=defdid, mk=mk)
        absorb(rep, recs, mism, props)
        rep.stages.append({"stage": f"{label}:{fn}", "walks": walks, "records": len(recs)})
        rep.extra["spec_behaviours_replayed"] = rep.extra.get("spec_behaviours_replayed", 0) + walks
    _WALK_GRAPH = {}
    gc.unfreeze()


def _random_history(args):
    seed, flname, steps, cfg, base_id = args
    rng = random.Random(seed)
    fl = flavours.make(flname.split("+")[0], flname.endswith("+typed"))
    mk = cfg.get("mk", 1)
    b = core.build(core.norm_state({"n": 0, "par": [], "kids": [], "top": [], "dat": [], "did": [], "knd": [],
                                    "meta": [], "typed": fl.typed}), fl, mk)
    src, failed = _build_src(fl, mk, 11 if 11 in cfg.get("xids", ()) else 0, base_id)
    if failed:
        return [failed]
    out = []
    for k in range(steps):
        try:
            cur = trace.snapshot(b)
        except Exception:  # noqa: BLE001
            break
        op = randops.random_op(cur, rng, D=cfg["D"], typed=fl.typed, kinds=cfg.get("kinds", (0,)),
                               xids=cfg.get("xids", (0,)), mk=mk, meta_vals=cfg.get("meta_vals", 0),
                               max_nodes=cfg.get("max_nodes", 12), families=cfg.get("families"), is_str=fl.is_str)
        op = _maybe_stale(b, cur, rng, 0.06) or op
        rec = trace.run_step(b, op, base_id + k, src, cfg["D"], pre_st=cur, extra={"hist": base_id, "step": k})
        out.append(rec)
        if "bad" in rec:
            break
    return out


def stage_random(rep, props, *, label, flnames, histories, steps, seed, cfg, defdid="hash"):
    """code -> spec: random long histories on larger trees, every step validated by TLC."""
    import multiprocessing as mp
    for fi, fn in enumerate(flnames):
        jobs = [(seed * 100003 + fi * 7919 + h, fn, steps, cfg, (h + 1) * 1000) for h in range(histories)]
        with mp.get_context("fork").Pool(16) as pool:
            outs = pool.map(_random_history, jobs, chunksize=max(1, len(jobs) // 64))
        recs = [r for o in outs for r in o]
        mism, checked, wall = P.validate_records(recs, defdid=defdid, mk=cfg.get("mk", 1))
        absorb(rep, recs, mism, props)
        rep.stages.append({"stage": f"{label}:{fn}", "histories": histories, "records": len(recs)})
        rep.extra["random_histories"] = rep.extra.get("random_histories", 0) + histories


def stage_suite(rep, props, *, label="suite"):
    """code -> spec: the repository's own test-suite runs under the external recorder (harness/suite_recorder.py,
    a pytest plugin that wraps the public mutating methods from outside); every outermost call becomes a step
    record validated by TLC like any other."""
    import os
    import subprocess
    repo = os.environ.get("VERIF_REPO", "/repo")
    out = P.WORK / "traces" / f"suite-{os.getpid()}.ndjson"
    out.parent.mkdir(parents=True, exist_ok=True)
    for f in (out, out.with_suffix(".ndjson.stats")):
        f.unlink(missing_ok=True)
    env = dict(os.environ, MAR10_NUTREE_VERIF="1", NUTREE_SUITE_TRACE=str(out), PYTHONPATH=f"{repo}:{P.WORK.parent}",
               PYTHONDONTWRITEBYTECODE="1")
    r = subprocess.run(["/venv/bin/python", "-B", "-m", "pytest", "-p", "no:cacheprovider", "-p", "harness.suite_recorder",
                        "-o", "addopts=", "-q", "-x", "--timeout=600"], cwd=repo, env=env, capture_output=True, text=True, timeout=900)
    if not out.exists():
        raise P.TLCError(f"{label}: the recorder produced no trace: {r.stdout[-400:]} {r.stderr[-400:]}")
    recs = [json.loads(l) for l in out.read_text().splitlines() if l.strip()]
    stats = json.loads(out.with_suffix(".ndjson.stats").read_text()) if out.with_suffix(".ndjson.stats").exists() else {}
    for f in (out, out.with_suffix(".ndjson.stats")):
        f.unlink(missing_ok=True)
    for i, rec in enumerate(recs):
        rec["id"] = 5_000_000 + i
    mism, checked, wall = P.validate_records(recs, mk=3)
    absorb(rep, recs, mism, props)
    rep.stages.append({"stage": label, "suite_result": (r.stdout.strip().splitlines() or ["?"])[-1][:120], "steps_recorded": len(recs),
                       "calls_not_translated": stats.get("skip")})
    rep.extra["repository_test_steps_validated"] = len(recs)


def _fault_job(args):
    from . import faults
    states, flname, base = args
    out = []
    for k, st in enumerate(states):
        out += faults.fault_records(st, flname, base + k * 1000)
    return out


def stage_faults(rep, props, *, label, max_nodes, d, flnames):
    """C13 fault enumeration: for every state in the bound, every operation taking a user callback and every k,
    the k-th invocation raises; TLC validates C01-C03 on what is left and 'unchanged' for read-only operations"""
    import multiprocessing as mp
    res = P.core_states(P.core_constants(max_nodes=max_nodes, d=d, ops=["add", "add_node"], emit=False))
    if not res.ok:
        raise P.TLCError(f"{label}: {res.errors[:3]}")
    rep.add_mc(res, label + ":states")
    sts = []
    for r in res.json_lines():
        if "state" in r:
            s = core.norm_state(r["state"])
            sts.append({x: s[x] for x in ("n", "par", "kids", "top", "dat", "did", "knd", "meta", "typed")})
    res.cleanup()
    for fn in flnames:
        chunks = [sts[i::32] for i in range(32) if sts[i::32]]
        jobs, base = [], 0
        for ch in chunks:
            jobs.append((ch, fn, base))
            base += len(ch) * 1000
        with mp.get_context("fork").Pool(16) as pool:
            outs = pool.map(_fault_job, jobs)
        recs = [r for o in outs for r in o]
        mism, checked, wall = P.validate_records(recs, defdid="hash")
        absorb(rep, recs, mism, props)
        rep.stages.append({"stage": f"{label}:{fn}", "states": len(sts), "fault_injections": len(recs)})
        rep.extra["fault_injections"] = rep.extra.get("fault_injections", 0) + len(recs)


# ------------------------------------------------------------------------------------------------
PLAIN_FLAVOURS = ["str", "int", "tuple", "dataclass", "dictwrapper", "keyed", "falsy", "intnid", "fwd", "unhash"]


def run(prop: str, tier: str) -> int:
    seed = env_seed()
    rep = Report(prop, tier, seed)
    props = {prop}
    quick = tier == "quick"
    rep.rule = ("every (state, operation, arguments) transition of MC_Core within the bound is executed on the real "
                "library per data flavour and validated by TLC (TraceCore) against Nutree!Apply and the C01-C03 "
                "predicates; plus TLC -simulate behaviours and random histories replayed on one live object. "
                "non-trivial = the step changed the tree or was refused; distinct by (flavour, pre-state, op).")
    rep.assumptions = [
        "node identity is bound by Python object identity inside one harness process",
        "data flavours: str, int, tuple, frozen dataclass, DictWrapper, callback-keyed objects (equal-comparing), "
        "non-injective id callback; explicit data_ids x11/x12",
        "int `before` positions inside the same parent for move_to are not driven (documentation is ambiguous)",
    ]
    focus = {
        "C01": ALL_OPS_X, "C04": ALL_OPS_X, "C13": ALL_OPS,
        "C02": ["add", "add_node", "move", "remove", "set_data", "filter"],
        "C03": ["add", "add_node", "add_tree", "move", "remove", "set_data"],
        "C07": ["add", "add_node", "add_tree", "remove", "set_data"],
    }[prop]
    K = P.core_constants
    # --- the specification's own properties on a larger bound (no emission)
    stage_mc_only(rep, label="mc:plain<=4x3", consts=K(max_nodes=4, d=3, ops=ALL_OPS + ["stale"], emit=False))
    if not quick:
        stage_mc_only(rep, label="mc:plain<=5x3", consts=K(max_nodes=5, d=3, ops=["add", "move", "remove", "set_data"],
                                                            emit=False))
    # --- exhaustive transitions, executed
    fl_q = {"C02": ["str", "keyed", "falsy", "intnid", "unhash"], "C01": ["str", "keyed"], "C04": ["str", "dataclass"],
            "C07": ["str", "fwd"]}.get(prop, ["str"])
    pairs = stage_exhaustive(rep, props, label="ex:plain<=3x2", consts=K(max_nodes=3, d=2, ops=focus, emit=True),
                             flnames=fl_q if quick else PLAIN_FLAVOURS, light=(fl_q if quick else PLAIN_FLAVOURS)[1:])
    if quick and prop in ("C07", "C01"):
        # a branch copied into itself needs room for one more node than the bound above
        stage_exhaustive(rep, props, label="ex:copy_into_own_branch<=4x2", only={("add_node", "copy_to")},
                         consts=K(max_nodes=4, d=2, ops=["add", "add_node"], emit=True), flnames=["str"])
    if quick and prop in ("C02", "C03", "C13"):
        # data / id changes on one more node than the bound above (clone groups whose later members collide)
        stage_exhaustive(rep, props, label="ex:set_data<=4x3", only={"set_data", "rename"},
                         consts=K(max_nodes=4, d=3, ops=["add", "add_node", "set_data"], emit=True), flnames=["str"])
    # --- calls through handles of removed nodes after every removing step of that enumeration
    stage_stale(rep, props, label="stale:plain<=3x2", pairs=pairs, flnames=["str"] if quick else ["str", "keyed", "falsy"],
                limit=400 if quick else 0)
    typed_ops = focus if not quick else [o for o in focus if o in ("add", "badpos", "add_node", "add_tree", "remove", "move")]
    stage_exhaustive(rep, props, label="ex:typed<=3x2",
                     consts=K(max_nodes=3, d=2, typed=True, kinds=(0, 2), ops=typed_ops, emit=True),
                     flnames=["str+typed"] if quick else ["str+typed", "dataclass+typed"])
    ids_ops = [o for o in focus if o in (("add", "set_data", "add_node", "add_tree") if quick else ("add", "set_data", "add_node", "add_tree", "remove", "move"))]
    stage_exhaustive(rep, props, label="ex:ids<=3x2",
                     consts=K(max_nodes=3, d=2, xids=(0, 11), ops=ids_ops, emit=True),
                     flnames=(["str", "str0"] if prop in ("C02", "C04") else ["str0"]) if quick else ["str", "tuple", "str0"])
    stage_exhaustive(rep, props, label="ex:callback<=3x3", defdid="callback",
                     consts=K(max_nodes=3, d=3, ops=[o for o in focus if o in ("add", "set_data", "add_node", "remove", "move")],
                              emit=True), flnames=["callback"])
    if prop == "C04" or not quick:
        mpairs = stage_exhaustive(rep, props, label="ex:meta<=2x2", mk=2,
                                  consts=K(max_nodes=2, d=2, meta_vals=1 if quick else 2, meta_keys=2, ops=["add", "meta", "remove"], emit=True),
                                  flnames=["str"])
        # histories of metadata edits on one live object (dict objects passed to update_meta are re-used)
        stage_walks(rep, props, label="walk:meta", pairs=mpairs, flnames=["str"], walks=150 if quick else 1500, steps=25,
                    seed=seed, mk=2)
    if not quick:
        pairs = stage_exhaustive(rep, props, label="ex:plain<=4x3", consts=K(max_nodes=4, d=3, ops=focus, emit=True),
                                 flnames=["str", "keyed"])
    # --- histories
    stage_walks(rep, props, label="walk:plain", pairs=pairs, flnames=["str", "keyed"] if quick else PLAIN_FLAVOURS,
                walks=200 if quick else 3000, steps=30, seed=seed)
    stage_random(rep, props, label="rnd:plain", flnames=["str", "keyed"] if quick else PLAIN_FLAVOURS,
                 histories=120 if quick else 1500, steps=40, seed=seed,
                 cfg={"D": 4, "xids": (0, 0, 0, 11, 12), "max_nodes": 12, "meta_vals": 2, "mk": 1})
    stage_random(rep, props, label="rnd:typed", flnames=["str+typed"] if quick else ["str+typed", "tuple+typed"],
                 histories=60 if quick else 800, steps=40, seed=seed + 1,
                 cfg={"D": 4, "kinds": (0, 2, 3), "max_nodes": 12, "meta_vals": 2, "mk": 1})
    stage_random(rep, props, label="rnd:callback", flnames=["callback"], defdid="callback",
                 histories=60 if quick else 800, steps=40, seed=seed + 2,
                 cfg={"D": 4, "max_nodes": 12, "mk": 1})
    stage_suite(rep, props)
    if prop == "C07":
        from . import checks_query
        checks_query.copies_stage(rep, quick)
    if prop == "C03":
        from . import checks_serial
        checks_serial.dup_routes_stage(rep, quick)
    if prop == "C13":
        stage_faults(rep, props, label="faults<=3x2" if quick else "faults<=4x3", max_nodes=3 if quick else 4,
                     d=2 if quick else 3, flnames=["str", "keyed"])
    rep.exhaustive = True
    return rep.finish()


if __name__ == "__main__":
    prop = sys.argv[1]
    tier = sys.argv[2] if len(sys.argv) > 2 else "quick"
    try:
        sys.exit(run(prop, tier))
    except P.TLCError as e:
        print(f"MACHINERY-FAILURE: {e}")
        sys.exit(2)
