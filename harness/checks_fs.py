"""Check C19: load_tree_from_fs mirrors the scanned directory (spec/NutreeFs.tla)."""
from __future__ import annotations

import json
import multiprocessing as mp
import os
import random
import shutil
import sys
import tempfile
import time

from nutree import Tree
from nutree.fs import FileSystemTree, load_tree_from_fs

from . import core, pipeline as P
from .findings import Report, env_seed
from .queries import call

# sort-sensitive names: digits, upper/lower case, punctuation, unicode; ranks = positions in Python's own order
NAMES = sorted(["0", "10", "2", "A", "B", "Z.txt", "_x", "a", "a.txt", "a1", "a10", "a2", "b", "b B", "Ä", "ä",
                "日本", "z", "cafe.txt", "cafe\u0301.txt", "cafz.txt", "caf\u00e9.txt", ".hidden",
                os.fsdecode(b"caf\xe9-latin1.txt")])   # NFD and NFC forms; a name that is not valid UTF-8 (surrogate escape)
assert NAMES == sorted(NAMES) and len(set(NAMES)) == len(NAMES)
RANK = {nm: i + 1 for i, nm in enumerate(NAMES)}


def valid_dir(st):
    return all((not st["kids"][i]) or st["knd"][i] == 2 for i in range(st["n"]))


# pairs of names whose relative order depends on the sort key (case folding, numeric, unicode normalisation, ...)
SENSITIVE = [("cafe\u0301.txt", "cafz.txt"), ("caf\u00e9.txt", "cafz.txt"), ("A", "a"), ("B", "a"), ("10", "2"), ("a10", "a2"),
             ("Z.txt", "a.txt"), (".hidden", "0"), ("_x", "a"), ("\u00c4", "z"), ("b B", "b")]


def assign_ranks(st, rng):
    rank = [0] * st["n"]
    for sibs in [st["top"]] + st["kids"]:
        rs = rng.sample(range(1, len(NAMES) + 1), len(sibs))
        if len(sibs) >= 2 and rng.random() < 0.7:
            # same-kind siblings get an order-sensitive pair of names
            kinds = {}
            for i in sibs:
                kinds.setdefault(st["knd"][i - 1], []).append(i)
            grp = [v for v in kinds.values() if len(v) >= 2]
            if grp:
                a, b = rng.choice(SENSITIVE)
                pair = [RANK[a], RANK[b]]
                rng.shuffle(pair)
                rest = [r for r in rs if r not in pair]
                chosen = grp[0][:2]
                it = iter(rest)
                rs = [pair[chosen.index(i)] if i in chosen else next(it) for i in sibs]
        for i, r in zip(sibs, rs):
            rank[i - 1] = r
    return rank


def materialise(st, rank, root):
    paths = {}
    files = []

    def mk(i, parent):
        p = os.path.join(parent, NAMES[rank[i - 1] - 1])
        paths[i] = p
        if st["knd"][i - 1] == 2:
            os.mkdir(p)
            for c in st["kids"][i - 1]:
                mk(c, p)
        else:
            twin = files[-1] if files and i % 3 == 0 else None
            if twin:
                os.link(twin, p)       # a second name of an existing file (hard link): still an entry of its own
            else:
                with open(p, "wb") as f:
                    f.write(b"x" * ((i * 37) % 50))
                mt = 0 if i % 4 == 0 else 1_600_000_000 + i * 1000 + 0.5     # some files carry the epoch itself as mtime
                os.utime(p, (mt, mt))
            files.append(p)

    for i in st["top"]:
        mk(i, root)
    return paths


def nested(tree, root):
    """nested <<rank, isdir, children>> of a FileSystemTree + stat agreement"""
    ok = True

    def walk(nodes, parent_path):
        nonlocal ok
        out = []
        for nd in nodes:
            e = nd.data
            p = os.path.join(parent_path, e.name)
            if e.is_dir:
                if not os.path.isdir(p) or e.size != 0:
                    ok = False
            else:
                try:
                    s = os.stat(p)
                    if e.size != s.st_size or e.mdate != s.st_mtime:
                        ok = False
                except OSError:
                    ok = False
            out.append([RANK.get(e.name, -1), bool(e.is_dir), walk(nd.children, p)])
        return out

    return walk(tree.children, root), ok


def _battery(args):
    states, seed, base = args
    rng = random.Random(seed)
    out = []
    tmp = tempfile.mkdtemp(prefix="nutree-fs-")
    try:
        for k, st in enumerate(states):
            rank = assign_ranks(st, rng)
            root = os.path.join(tmp, f"d{base + k}")
            os.mkdir(root)
            materialise(st, rank, root)
            obs = []
            for sort in (True, False):
                def scan(sort=sort):
                    return load_tree_from_fs(root, sort=sort)

                def norm(t, cls=FileSystemTree):
                    tr, ok = nested(t, root)
                    return {"tree": tr, "stat_ok": ok, "cls": type(t) is cls}
                obs.append({"q": "scan", "a": {"sort": sort}, "r": call(scan, norm)})

                def reload(sort=sort, via="fstree"):
                    t = load_tree_from_fs(root, sort=sort)
                    path = os.path.join(tmp, f"s{base + k}_{int(sort)}.nutree")
                    if via == "ascii_stream":      # a caller-opened stream with a narrow encoding
                        with open(path, "w", encoding="ascii") as fp:
                            t.save(fp)
                    elif sort:
                        t.save(path)
                    else:
                        t.save(path, compression=True, key_map=False)
                    if via == "generic":           # the generic loader with the FileSystemTree mapper
                        return Tree.load(path, mapper=FileSystemTree.deserialize_mapper)
                    return FileSystemTree.load(path)
                obs.append({"q": "reload", "a": {"sort": sort}, "r": call(reload, norm)})
                via = ("generic", "ascii_stream")[(base + k + int(sort)) % 2]
                obs.append({"q": "reload", "a": {"sort": sort, "via": via}, "r": call(
                    lambda sort=sort, via=via: reload(sort, via),
                    lambda t, via=via: norm(t, Tree if via == "generic" else FileSystemTree))})
            out.append({"id": base + k, "st": st, "rank": rank, "obs": obs})
            shutil.rmtree(root, ignore_errors=True)
    finally:
        shutil.rmtree(tmp, ignore_errors=True)
    return out


def run(prop: str, tier: str) -> int:
    from .checks_query import shapes
    seed = env_seed()
    rep = Report("C19", tier, seed)
    rep.dedupe_on_why = False
    quick = tier == "quick"
    rep.rule = ("every directory shape in the bound (ordered forests x file/dir flags, files are leaves, empty folders "
                "included; enumerated by TLC) is materialised in a temp dir with sort-sensitive names (ranks drawn per "
                "folder), scanned with sort on/off, saved and reloaded with the FileSystemTree mappers; TLC (TraceFs) "
                "compares the nested result with Scan(D). distinct = (shape, flags, ranks, observation).")
    rep.assumptions = ["name order is Python's str order: the harness maps ranks to names with a table asserted against "
                       "sorted(); TLC only sees ranks", "size/mtime are compared by the harness against os.stat "
                       "(numeric pass-through)", "symlinks and special files are not generated"]
    sts = shapes(rep, max_nodes=4 if quick else 6, k=2, label="dir-shapes")
    sts = [core.norm_state(s) for s in sts]
    sts = [{x: s[x] for x in ("n", "par", "kids", "top", "dat", "did", "knd", "meta", "typed")} for s in sts]
    sts = [s for s in sts if valid_dir(s)]
    t0 = time.time()
    chunks = [sts[i::16] for i in range(16) if sts[i::16]]
    jobs, base = [], 0
    for ci, ch in enumerate(chunks):
        jobs.append((ch, seed * 977 + ci, base))
        base += len(ch)
    with mp.get_context("fork").Pool(16) as pool:
        outs = pool.map(_battery, jobs)
    recs = [r for o in outs for r in o]
    nobs = sum(len(r["obs"]) for r in recs)
    mism, checked, wall = P.validate_records(recs, module="TraceFs.tla", tag="fs", shards=16)
    if checked != nobs:
        raise P.TLCError(f"validated {checked} of {nobs}")
    byid = {r["id"]: r for r in recs}
    rep.validated += nobs
    rep.evaluations += nobs
    for r in recs:
        for o in r["obs"]:
            rep.nontrivial.add(hash((json.dumps(r["st"]["kids"]), json.dumps(r["st"]["knd"]), json.dumps(r["rank"]), o["q"], o["a"]["sort"])))
    r = recs[len(recs) // 2]
    rep.add_sample({"dir": {k: r["st"][k] for k in ("top", "kids", "knd")}, "rank": r["rank"], "obs": r["obs"][:1]})
    for m in mism:
        if m["property"] == "C19":
            rec = byid.get(m["id"])
            rep.mismatch(m, {"st": rec["st"], "rank": rec["rank"]} if rec else None)
    rep.stages.append({"stage": "scan+reload", "directories": len(recs), "observations": nobs, "wall_s": round(time.time() - t0, 1)})
    rep.exhaustive = True
    return rep.finish()


if __name__ == "__main__":
    sys.exit(run("C19", sys.argv[1] if len(sys.argv) > 1 else "quick"))
