"""Write /verif/MANIFEST.json from the table below (run: python3 harness/gen_manifest.py)."""
import json
from pathlib import Path

VERIF = Path(__file__).resolve().parent.parent
PROPS = [json.loads(l)["id"] for l in (VERIF / "properties.jsonl").read_text().splitlines() if l.strip()]

CORE_NOTE = ("Trusted base: TLC; the harness projection (public read API -> abstract state) and concretisation; bounds "
             "as recorded in the evidence file. The specification (spec/Nutree.tla) encodes the documented/intended "
             "semantics; operations with ambiguous documentation are not driven (listed in DESIGN.md).")

CLAIMS = {
    "C01": ("TLC checks WellFormed on every reachable state of spec/MC_Core.tla (all mutating operations, all arguments, "
            "bounded trees); every transition of the bounded state graph, random walks through that graph and random long "
            "histories are executed on the real library and TLC (spec/TraceCore.tla) evaluates the C01 predicates "
            "(each node once, parent/child agreement, owner, count = reachable, node_id lookups, removed nodes gone, "
            "iteration) on every logged post-state. Calls through the handles of removed nodes (the specification's `stale` "
            "action: any answer, tree unchanged) follow every removing transition and are interleaved in the histories; "
            "the repository's own test-suite runs are validated as traces too.", "5 C01"),
    "C02": ("TLC checks IndexExact on every reachable spec state (index maintained procedurally by Register/Unregister/"
            "Rekey); after every executed step the harness logs find_all/find_first/in/get_clones/is_clone/count_unique "
            "for every data value and data_id present or absent, over six data flavours plus a non-injective id callback; "
            "TLC validates them against the logged structure, and the data_id rule itself: every id that is not an explicit "
            "one is the default id (callback / hash) of the data the node holds now.", "5 C02"),
    "C03": ("TLC checks SiblingUnique on every reachable spec state and that every operation whose naive result would "
            "hold duplicate siblings is refused (Guard); every such (state, operation) pair in the bound is executed and "
            "must raise UniqueConstraintError and leave duplicates nowhere.", "5 C03"),
    "C04": ("The specification is the independent executable specification: for every transition of the bounded state "
            "graph and for random histories TLC compares status, returned node and the full post-state (identity, data, "
            "data_id, kind, meta, parent, sibling order) with Nutree!Apply; Frame/RefusalFrame are checked on the spec.",
            "5 C04"),
    "C07": ("Copy operations (add_child(node) shallow/deep, copy_to, add_child(tree), Tree.copy_to, copy_to(add_self=False)) "
            "are transitions of the model with a second (source) tree; TLC compares the copy with the spec's result and "
            "the source projection before/after; later mutations happen in the same histories.", "5 C07"),
    "C13": ("Every refusal transition of the model (uniqueness, ambiguous match, invalid before=, cross-tree / typed / "
            "own-branch move, bad keys) is executed; TLC checks that any step ending in an exception left the projected "
            "state unchanged and that the raised class is one the spec allows.", "5 C13"),
}

QUERY_NOTE = ("Trusted base: TLC; the harness normalisation of answers (node objects -> model ids by identity); "
              "states are built through the public API. Bounds as recorded in the evidence file.")
CLAIMS.update({
    "C06": ("TLC checks the traversal laws (permutation, parent-before-children, level order and direction, visit = "
            "iterator, skip/stop semantics) on every ordered forest in the bound (MC_Shapes); for every shape, start node, "
            "method, add_self and every single skip/stop node and signal form (plus all 3^n assignments on small trees) "
            "the real iterator/visit() run is logged (visited ids, return value) and compared by TLC with the operators.",
            "5 C06"),
    "C08": ("TLC checks on every shape in the bound and ALL 6^n verdict assignments that the operational scan "
            "(FilterScan) equals the declarative characterisation (accepted + selected branches + ancestors), is closed "
            "under parents and calls nothing below skip/select or after stop; for every shape (plus labelled forests "
            "with clones and typed forests), start node and verdict assignment (exhaustive up to a size, sampled beyond; "
            "verdict forms rotating over returned/raised instance/class) filter() on a fresh tree, filtered() and "
            "copy(predicate=) are run and TLC compares kept set, order, the nodes the predicate was called on, "
            "in-place = copying, and source untouched.", "5 C08"),
    "C09": ("For every labelled forest with clones in the bound (MC_Core states), every start node, add_self, pattern / "
            "predicate and limit k, and every index-access key kind, the real answer (or exception class) is compared by "
            "TLC with Search/FindFirst/GetItem; the match set of a pattern is computed by the harness with re.fullmatch.",
            "5 C09"),
    "C10": ("TLC checks mutual-consistency laws of the relationship operators on every ordered forest in the bound; for "
            "every shape (also with all data comparing equal, and labelled forests with clones) every node and ordered "
            "pair is queried through all relationship methods and compared by TLC; the same battery runs on trees that "
            "result from random mutation histories on one live object, on random larger trees with clones, and against "
            "nodes of a second tree with the same node_ids (unrelated, no common ancestor).", "5 C10"),
    "C15": ("Every ordered forest x kind assignment in the bound (MC_Shapes with K=2) is built as a TypedTree; all "
            "kind-aware queries for every node, kind (present, absent, ANY_KIND) and any_kind flag are compared by TLC "
            "with 'filter the child/sibling list by kind'; TLC checks any_kind = untyped on the spec.", "5 C15"),
    "C16": ("TLC checks on every shape that the prefix sequences determine the shape (ShapeFrom o Prefix = Shape); the "
            "real format() output for every shape, start node, add_self, title mode, decodable connector style (table + "
            "custom 4/6-tuples + list), repr form and join string is tokenised into segment indexes and compared by TLC.",
            "5 C16"),
})
CLAIMS.update({
    "C05": ("TLC checks Decode(Encode(S)) = Canon(S) on every labelled forest in the bound (clones at every relative "
            "position incl. below a sibling of the first occurrence, clones of differing kind, explicit ids); every such "
            "state is saved and loaded with the loading class under the option grid key_map x value_map x compression x "
            "path/stream x callback/derived-class mappers (quick: rotating sample, thorough: full grid) for string, "
            "object and unicode data, plain and typed; TLC compares the loaded content (shape, order, data as rebuilt, "
            "data_ids, kinds), class, returned file meta and the untouched source with Canon(S).", "5 C05"),
    "C12": ("Writing side: each written file is decoded by the harness with exactly the maps its header declares and TLC "
            "compares the node list with Encode(S) (pre-order, 1-based parent positions, clone references iff same kind "
            "as first occurrence, payload shape, header facts). Reading side: documents rendered by an independent "
            "encoder from TLC's Encode(S) under several key/value maps, the literal documents of the user guide, and "
            "malformed headers are loaded; TLC compares the loaded content / the rejection.", "5 C12"),
    "C14": ("TLC checks FromDict(ToDictList(S)) = Canon(S) on every labelled forest in the bound; to_dict_list() "
            "(strings without mapper, objects with an inverse mapper pair, explicit ids, unicode, after clear(), through "
            "json dumps/loads) is normalised and compared by TLC with ToDictList(S), and from_dict() of it with Canon(S).",
            "5 C14"),
})
CLAIMS.update({
    "C17": ("TLC checks on every shape that excluding the root removes exactly the root's out-edges and that there is "
            "one edge per exported tree node; for every shape, labelled forest with clones (string data, ints including "
            "0, typed) and start node the DOT lines, Mermaid lines and RDF triples are parsed back into graph nodes, "
            "edges, kind labels and names (keys mapped to data_ids / node ids through the harness registry) for "
            "unique_nodes on/off and add_root/add_self on/off; TLC compares them with ExportNodeKeys/ExportEdges "
            "(bags for DOT/Mermaid, sets for RDF).", "5 C17"),
})
CLAIMS.update({
    "C18": ("TLC checks the lock protocol (spec/NutreeLock.tla: writers with two-step critical sections and a nested "
            "re-entrant snapshot, readers as Start.TryAcquire.Acquire.Read.Read.Release.End) over all interleavings: "
            "NoForeignRead, SnapshotCommitted, NestedSeesOwn, deadlock freedom, termination under weak fairness; a variant "
            "with an unlocked reader must be rejected (non-vacuity). Every complete schedule printed by TLC is forced on "
            "real threads for each snapshot operation (save to stream/path, copy, copy(predicate), filtered, copy_to, "
            "to_dict_list, to_dotfile to stream and path, copy_to into the same tree, refused and failing operations, "
            "with tree; Tree and TypedTree) by a cooperative scheduler; lock objects are traced from their creation "
            "(one lock per tree is part of the validated protocol); free-running multi-thread runs are recorded as well; TLC (spec/TraceLock.tla) validates every "
            "event trace and the version each snapshot shows.", "5 C18"),
})
CLAIMS.update({
    "C11": ("The diff laws are a declarative TLA+ specification (spec/NutreeDiff.tla, nodes identified by data-path): "
            "identical => no marks; dropping removed/moved-away gives T1's parent-child relation; dropping added/moved-here "
            "gives T0's child lists in order below nodes present in both; marks exactly on one-sided children; moved-here "
            "has a moved-away partner; order marks carry the true indexes; reduce keeps exactly marked nodes + ancestors; "
            "inputs unmodified; the reduced result is the unreduced one restricted to marked nodes and ancestors. All ordered pairs of labelled forests with clones in the bound (states enumerated by TLC) "
            "and random larger pairs x ordered x reduce are diffed with the real code; TLC (TraceDiff) evaluates every "
            "law on each result.", "5 C11"),
    "C19": ("Scan(D, sort) is defined in spec/NutreeFs.tla; every directory shape in the bound (forests x file/dir "
            "flags, enumerated by TLC) is materialised with sort-sensitive names, scanned with sort on/off, saved and "
            "reloaded with the FileSystemTree mappers; TLC (TraceFs) compares entries, depth, flags and sorted order; "
            "size/mtime are compared by the harness with os.stat.", "5 C19"),
    "C20": ("spec/NutreeGen.tla defines Conforms(tree, def) (allowed child types per relation, children grouped in "
            "relation order, counts in range, attributes = merge(global, type, relation) with idx/hier expansion, value "
            "ranges, optional attributes); TLC checks that every outcome of a nondeterministic generator model conforms "
            "and that four mutated generators are rejected; a library of structure definitions x seeds x Tree/TypedTree is "
            "built by the real generator and TLC (TraceGen) evaluates Conforms clause by clause.", "5 C20"),
})
QUERY = {"C11", "C19", "C20", "C17", "C05", "C06", "C08", "C09", "C10", "C12", "C14", "C15", "C16"}
LOCK_NOTE = ("Trusted base: TLC; CPython threading; the delegating lock wrapper and cooperative scheduler of "
             "harness/lock.py. Reads are observed through user callbacks and snapshot content, not through source hooks.")
TECHNIQUE = "TLA+ spec + TLC model checking; spec->code transition replay and code->spec trace validation by TLC"


def main():
    checks = []
    for pid, (text, ref) in CLAIMS.items():
        checks.append({
            "property_id": pid,
            "quick_cmd": f"./check {pid} quick",
            "thorough_cmd": f"./check {pid} thorough",
            "evidence_file": f"/verif/evidence/{pid}.json",
            "replay_cmd_template": f"./check {pid} --replay {{path}}",
            "engine": "tlc-conformance",
            "level_claimed": {"category": "model_checking", "text": text, "design_ref": f"DESIGN.md section {ref}"},
            "level_note": LOCK_NOTE if pid == "C18" else QUERY_NOTE if pid in QUERY else CORE_NOTE,
            "technique": TECHNIQUE,
        })
    claimed = set(CLAIMS)
    m = {
        "version": 1,
        "setup_cmd": "./setup.sh",
        "hooks": {
            "guard": "MAR10_NUTREE_VERIF",
            "enable": "no source hooks: projection, lock tracer and the pytest recorder plugin "
                      "(harness/suite_recorder.py, -p harness.suite_recorder) wrap the public API from outside and are "
                      "active only with MAR10_NUTREE_VERIF=1 (set by ./check)",
            "baseline_off_cmd": "cd /repo && /venv/bin/python -m pytest -ra -q -p no:cacheprovider --timeout=900 "
                                "--continue-on-collection-errors",
            "source_commits": [],
            "add_only": True,
        },
        "engines": [{
            "name": "tlc-conformance",
            "path": "/verif/check",
            "serves_properties": sorted(claimed),
            "kind_free_text": "TLC 1.8 model checking of spec/*.tla + Python harness executing TLC-enumerated "
                              "transitions on the real library + TLC trace validation of the recorded steps",
        }],
        "checks": checks,
        "not_applicable": [{"property_id": p, "reason": "check under construction in this round; will be claimed once "
                            "its TLA+ model and conformance harness are committed"} for p in PROPS if p not in claimed],
        "notes": "See DESIGN.md. known_findings.json lists open findings (reported as KNOWN-FINDING) and fixed ones.",
    }
    (VERIF / "MANIFEST.json").write_text(json.dumps(m, indent=1))


if __name__ == "__main__":
    main()
