"""Concretisations ("flavours") of the abstract Data / DataId / Kind values of the TLA+ model.

The specification only knows small integers.  A flavour decides what Python object a model data
value d is, which real data_id corresponds to a model data_id, and how the tree is configured.
The default data_id of a value is computed HERE (hash(obj) or the flavour's own callback), never
by asking the tree, so the "explicit id, else callback, else hash" rule of C02 is checked rather
than assumed.
"""
from __future__ import annotations

import dataclasses

from nutree import Tree
from nutree.node import Node
from nutree.common import DictWrapper
from nutree.typed_tree import TypedTree

# kind names: one is a substring of another on purpose (a substring test must not pass for a kind test)
KINDS = {1: "child", 2: "cause", 3: "root_cause", 4: "k4"}
KIND_IDS = {v: k for k, v in KINDS.items()}


@dataclasses.dataclass(frozen=True)
class Item:
    name: str
    rank: int = 0

    def __str__(self):
        return self.name


class Keyed:
    """Object identified by .key through a calc_data_id callback; == is looser than the key
    (all instances of one `group` compare equal) -- realistic for records compared by value."""

    def __init__(self, name, key, group):
        self.name = name
        self.key = key
        self.group = group

    def __eq__(self, other):
        return isinstance(other, Keyed) and self.group == other.group

    def __hash__(self):
        return hash(self.group)

    def __str__(self):
        return self.name

    def __repr__(self):
        return f"Keyed({self.name})"


NAMES = ["a", "b", "c", "d", "e", "f", "g", "h"]


class Flavour:
    """name: flavour id; typed: TypedTree; defdid: 'hash' | 'callback' (which MC config applies)"""

    defdid = "hash"
    is_str = False
    name_sorted = True  # str(data) sorts like the model value d

    def __init__(self, name, typed=False):
        self.name = name + ("+typed" if typed else "")
        self.typed = typed
        self._data = {}
        self._rev = {}

    # --- to be overridden
    def _make(self, d):
        raise NotImplementedError

    def calc_data_id(self):
        return None

    def default_real_did(self, d):
        return hash(self.data(d))

    # --- common
    def data(self, d):
        if d not in self._data:
            o = self._make(d)
            self._data[d] = o
            self._rev[id(o)] = d
        return self._data[d]

    def data_index(self, obj):
        """model value of a data object (by identity), -1 if unknown"""
        r = self._rev.get(id(obj))
        if r is not None and self._data[r] is obj:
            return r
        # plain strings / ints may be rebuilt (e.g. by load()): fall back to equality for immutables
        if isinstance(obj, (str, int, tuple, Item, Fwd)) and not isinstance(obj, bool):
            for d in range(1, 15):  # make sure the whole alphabet exists
                try:
                    self.data(d)
                except IndexError:
                    break
            for d, o in self._data.items():
                if type(o) is type(obj) and o == obj:
                    return d
        return -1

    def model_default_did(self, d):
        return d

    def index_of_fields(self, name, rank):
        """model value of the object a file entry with these fields describes"""
        return self.data_index(Item(name, rank))

    def content_intact(self):
        return True

    def str_values(self):
        """model values whose data object is a plain string (stored as a bare string when nothing else is needed)"""
        return list(range(1, 9)) if self.is_str else []

    def model_did_of_node(self, node):
        return self.model_did(node.data_id)

    def real_did(self, mdid):
        """real data_id for a model data_id"""
        if mdid >= 11 and mdid < 20:
            return f"x{mdid}"
        return self.default_real_did(mdid)

    def model_did(self, real, maxd=8):
        if isinstance(real, str) and real.startswith("x") and real[1:].isdigit():
            return int(real[1:])
        for d in range(1, maxd + 1):
            if real == self.default_real_did(d) and type(real) is type(self.default_real_did(d)):
                return d
        return -1

    def new_tree(self, name=None):
        cls = TypedTree if self.typed else Tree
        return cls(name, calc_data_id=self.calc_data_id())

    def kind(self, k):
        # a NEW string object each time: kinds are values, not identities
        return "".join(list(KINDS[k]))

    def kind_id(self, node):
        if not self.typed:
            return 0 if not hasattr(node, "kind") else -1
        return KIND_IDS.get(getattr(node, "kind", None), -1)


class StrFlavour(Flavour):
    is_str = True

    def _make(self, d):
        return NAMES[d - 1]


WORDS = ["a", "ab", "ba", "b", "aa", "bab", "A", "abc"]


class _DisplayNode(Node):
    """a node class of the user (Tree(factory=...)) whose `name` is a display text, not the data"""

    @property
    def name(self):
        return f"{self.data} ({len(self.children)})"


class FactoryFlavour(StrFlavour):
    """string data in a tree with a custom node factory"""

    def new_tree(self, name=None):
        return Tree(name, factory=_DisplayNode)


class FreshStrFlavour(StrFlavour):
    """multi-character strings; with fresh = True every request hands out a NEW, equal string object (a tree that
    was loaded from a file or built from computed labels: equal data, different objects)"""
    fresh = False

    def _make(self, d):
        return "n-" + NAMES[d - 1]

    def data(self, d):
        if self.fresh:
            return "".join(("n-", NAMES[d - 1]))
        return super().data(d)

    def data_index(self, obj):
        if isinstance(obj, str) and obj.startswith("n-") and obj[2:] in NAMES:
            return NAMES.index(obj[2:]) + 1
        return -1


class EmptyKindFlavour(StrFlavour):
    """string data; typed trees whose second kind is the empty string (a legal kind: any str but ANY_KIND)"""

    def kind(self, k):
        return "" if k == 2 else super().kind(k)

    def kind_id(self, node):
        if self.typed and node.kind == "":
            return 2
        return super().kind_id(node)


class WordFlavour(Flavour):
    """strings for which re.fullmatch / match / search differ"""

    is_str = True
    name_sorted = False

    def _make(self, d):
        return WORDS[d - 1]


UNAMES = ["\u00e4", "\u65e5\u672c", "\u00df\u00df", "\U0001f642", "\u00e9a", "z\u0301", "\u4e2d", "\u00f1"]


class UnicodeFlavour(Flavour):
    is_str = True
    name_sorted = False

    def _make(self, d):
        return UNAMES[d - 1]


DOC_NAMES = ["A", "a1", "a11", "a12", "a2", "B", "b1", "b11",
             "dept:Development", "person:Alice", "person:Bob", "person:Charleen", "dept:Marketing", "person:Dave"]


class DocFlavour(Flavour):
    """the strings of the user guide's serialisation examples"""
    is_str = True
    name_sorted = False

    def _make(self, d):
        return DOC_NAMES[d - 1]

    def model_did(self, real, maxd=14):
        return super().model_did(real, maxd)


class EmptyStrFlavour(Flavour):
    """strings including the empty (falsy) string as data value 1"""
    is_str = True
    name_sorted = True

    def _make(self, d):
        return ([""] + NAMES)[d - 1]


class FalsyIdFlavour(Flavour):
    """string data; the explicit data_ids are the falsy values 0 and "" (legal: 'an optional integer or string')"""
    is_str = True

    def _make(self, d):
        return NAMES[d - 1]

    def real_did(self, mdid):
        if mdid == 11:
            return 0
        if mdid == 12:
            return ""
        return super().real_did(mdid)

    def model_did(self, real, maxd=8):
        if real == 0 and isinstance(real, int) and not isinstance(real, bool):
            return 11
        if real == "":
            return 12
        return super().model_did(real, maxd)


class StrCallbackFlavour(Flavour):
    """string data in a tree with a calc_data_id callback (ids 'id:<name>'): the default id is not hash(data)"""
    is_str = True

    def _make(self, d):
        return NAMES[d - 1]

    def calc_data_id(self):
        return lambda tree, data: "id:" + data if isinstance(data, str) else hash(data)

    def default_real_did(self, d):
        return "id:" + NAMES[d - 1]


class IntFlavour(Flavour):
    name_sorted = False      # 7, 14, 21: the default sort key is the NAME ("14" < "21" < "7")

    def _make(self, d):
        return d * 7


class IntNodeIdFlavour(IntFlavour):
    """int data; the nodes of a built state get custom node_ids that coincide with int DATA values which are not
    in the tree (data 3.. of a two-value alphabet): `value in tree` must not be answered by a node_id"""

    def node_id_for(self, i):
        return 7 * (i + 2)


class FalsyFlavour(Flavour):
    """ints including the falsy value 0 (d = 1)"""

    def _make(self, d):
        return d - 1


class TupleFlavour(Flavour):
    def _make(self, d):
        return (NAMES[d - 1], d)


class DataclassFlavour(Flavour):
    def _make(self, d):
        return Item(NAMES[d - 1], d)


@dataclasses.dataclass(frozen=True)
class Fwd:
    """data object whose attribute names meet names the library looks up on nodes (`kind`), used with
    Tree(forward_attrs=True): node.<attr> is then forwarded to node.data.<attr> for attributes a node lacks"""
    label: str
    kind: str = "cause"
    title: str = "t"

    def __str__(self):
        return self.label


class FwdFlavour(Flavour):
    def _make(self, d):
        return Fwd(NAMES[d - 1])

    def new_tree(self, name=None):
        cls = TypedTree if self.typed else Tree
        return cls(name, forward_attrs=True)

    def kind_id(self, node):
        if not self.typed:   # `kind` of a plain node is the forwarded data attribute, not a node kind
            return 0 if not hasattr(type(node), "kind") else -1
        return KIND_IDS.get(node.kind, -1)


class DictWrapperFlavour(Flavour):
    name_sorted = False

    def _make(self, d):
        return DictWrapper({"name": NAMES[d - 1], "v": d})


class UnhashFlavour(Flavour):
    """plain dicts (unhashable) as data, identified by an id callback (the documented way to store dicts)"""
    name_sorted = False

    def _make(self, d):
        return {"name": NAMES[d - 1]}

    def calc_data_id(self):
        return lambda tree, data: "u_" + data["name"] if isinstance(data, dict) else hash(data)

    def default_real_did(self, d):
        return "u_" + NAMES[d - 1]

    # serialisation: a mapper pair for the dicts (lib_mappers = "the pair to use with save/load and to_dict_list")
    @staticmethod
    def _ser(node, data):
        data["name"] = node.data["name"]
        return data

    @staticmethod
    def _deser(parent, data):
        return {"name": data["name"]}

    lib_mappers = (_ser.__func__, _deser.__func__)

    def data_index(self, obj):
        r = self._rev.get(id(obj))
        if r is not None and self._data[r] is obj:
            return r
        if isinstance(obj, dict) and set(obj) == {"name"} and obj["name"] in NAMES:   # rebuilt by load()
            return NAMES.index(obj["name"]) + 1
        return -1

    def index_of_fields(self, name, rank):
        return NAMES.index(name) + 1 if name in NAMES and rank is None else -1

    def content_intact(self):
        return all(o == {"name": NAMES[d - 1]} for d, o in self._data.items())


class MixedFlavour(Flavour):
    """strings and objects in ONE tree (odd values: str, even values: Item), saved with a serialiser that only knows
    its objects and loaded with a STRICT deserialiser (like the user guide's: it raises for an entry it does not
    know) - bare strings never reach a mapper"""

    def _make(self, d):
        return NAMES[d - 1] if d % 2 else Item(NAMES[d - 1], d)

    @staticmethod
    def _ser(node, data):
        if isinstance(node.data, Item):
            data["name"] = node.data.name
            data["rank"] = node.data.rank
        return data

    @staticmethod
    def _deser(parent, data):
        return Item(data["name"], data["rank"])      # KeyError for anything else

    lib_mappers = (_ser.__func__, _deser.__func__)
    strict_docs = True

    def str_values(self):
        return [d for d in range(1, 9) if d % 2]


class DWrapFlavour(Flavour):
    """DictWrapper data stored with the library's own mapper pair (DictWrapper.serialize_mapper / deserialize_mapper);
    the wrapped dicts use the field names of Item, so that custom key / value maps name keys of the user's dicts"""
    name_sorted = False
    lib_mappers = (DictWrapper.serialize_mapper, DictWrapper.deserialize_mapper)

    def _pristine(self, d):
        return {"name": NAMES[d - 1], "rank": d}

    def _make(self, d):
        return DictWrapper(self._pristine(d))

    def data_index(self, obj):
        r = self._rev.get(id(obj))
        if r is not None and self._data[r] is obj:
            return r
        if isinstance(obj, DictWrapper):      # rebuilt by load(): by content
            for d in range(1, 9):
                if obj._dict == self._pristine(d):
                    return d
        return -1

    def model_did_of_node(self, node):
        # the default id of a DictWrapper is the identity of its dict: after load() it is the identity of the rebuilt one
        if node.data_id == hash(node.data):
            return self.data_index(node.data)
        return self.model_did(node.data_id)

    def index_of_fields(self, name, rank):
        return rank if 1 <= rank <= 8 and {"name": name, "rank": rank} == self._pristine(rank) else -1

    def content_intact(self):
        """the user's dicts still hold what the user put into them"""
        return all(o._dict == self._pristine(d) for d, o in self._data.items())


class KeyedFlavour(Flavour):
    """objects keyed by a calc_data_id callback; injective keys; all objects compare =="""

    def _make(self, d):
        return Keyed(NAMES[d - 1], f"key{d}", 0)

    def calc_data_id(self):
        return lambda tree, data: data.key if isinstance(data, Keyed) else hash(data)

    def default_real_did(self, d):
        return f"key{d}"


class CallbackFlavour(Flavour):
    """non-injective id callback: data 1,2 share an id, 3,4 share an id (model: DefDidCallback)"""

    defdid = "callback"

    def _make(self, d):
        return Keyed(NAMES[d - 1], f"grp{(d + 1) // 2}", d)

    def calc_data_id(self):
        return lambda tree, data: data.key if isinstance(data, Keyed) else hash(data)

    def model_default_did(self, d):
        return 20 + (d + 1) // 2

    def default_real_did(self, d):
        return f"grp{(d + 1) // 2}"

    def real_did(self, mdid):
        if 11 <= mdid < 20:
            return f"x{mdid}"
        if mdid > 20:
            return f"grp{mdid - 20}"
        return f"none{mdid}"

    def model_did(self, real, maxd=8):
        if isinstance(real, str):
            if real.startswith("grp"):
                return 20 + int(real[3:])
            if real.startswith("x") and real[1:].isdigit():
                return int(real[1:])
        return -1


def make(name, typed=False) -> Flavour:
    cls = {
        "str": StrFlavour,
        "int": IntFlavour,
        "words": WordFlavour,
        "kstr": EmptyKindFlavour,
        "factory": FactoryFlavour,
        "nstr": FreshStrFlavour,
        "ustr": UnicodeFlavour,
        "estr": EmptyStrFlavour,
        "str0": FalsyIdFlavour,
        "strcb": StrCallbackFlavour,
        "doc": DocFlavour,
        "falsy": FalsyFlavour,
        "intnid": IntNodeIdFlavour,
        "tuple": TupleFlavour,
        "dataclass": DataclassFlavour,
        "fwd": FwdFlavour,
        "dictwrapper": DictWrapperFlavour,
        "dwrap": DWrapFlavour,
        "mixed": MixedFlavour,
        "unhash": UnhashFlavour,
        "dwrapx": DWrapFlavour,      # the same, named apart for trees with explicit data_ids
        "keyed": KeyedFlavour,
        "callback": CallbackFlavour,
    }[name]
    return cls(name, typed)


HASH_FLAVOURS = ["str", "int", "tuple", "dataclass", "dictwrapper", "keyed"]
