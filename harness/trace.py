"""Record one step of the real library as a self-contained trace record for spec/TraceCore.tla."""
from __future__ import annotations

from . import core
from .flavours import Flavour


class StepTimeout(BaseException):
    pass


class time_limit:
    """a step (operation + observations) that does not come back - e.g. a parent chain that has become a cycle - is an
    observation, not a reason for the machinery to hang: SIGALRM interrupts it (main thread of a worker process)"""

    def __init__(self, seconds):
        self.seconds = seconds

    def __enter__(self):
        import signal
        import threading
        self.active = threading.current_thread() is threading.main_thread()
        if self.active:
            def onalarm(signum, frame):
                raise StepTimeout()
            self.old = signal.signal(signal.SIGALRM, onalarm)
            signal.setitimer(signal.ITIMER_REAL, self.seconds)
        return self

    def __exit__(self, *a):
        import signal
        if self.active:
            signal.setitimer(signal.ITIMER_REAL, 0)
            signal.signal(signal.SIGALRM, self.old)
        return False


def probe_dids(fl: Flavour, maxd: int):
    ds = {fl.model_default_did(d) for d in range(1, maxd + 1)}
    return sorted(ds | {11, 12})


def lookups(b: core.Built, st: dict, maxd: int) -> dict:
    """C02 observations: lookups by data object and clone queries, ids via identity."""
    tree, fl = b.tree, b.fl
    ident = {id(nd): i for i, nd in enumerate(b.nodes) if nd is not None}

    def ids(nodes):
        return [ident.get(id(x), -2) for x in nodes]

    by_data = []
    for d in range(1, maxd + 1):
        obj = fl.data(d)
        allm = tree.find_all(obj)
        first = tree.find_first(obj)
        lim = [ids(tree.find_all(obj, max_results=k)) for k in (1, 2, 3)]
        by_data.append({
            "d": d,
            "all": ids(allm),
            "first": 0 if first is None else ident.get(id(first), -2),
            "has": bool(obj in tree),
            "lim": lim,
            # the same lookup through the Node API of the (public) system root
            "root_all": ids(tree.system_root.find_all(obj)),
            "root_did": ids(tree.system_root.find_all(data_id=fl.real_did(fl.model_default_did(d)))),
        })
    clones = []
    for i in range(1, st["n"] + 1):
        if st["par"][i - 1] == -1:
            continue
        nd = b.nodes[i]
        clones.append({
            "i": i,
            "others": ids(nd.get_clones()),
            "withself": ids(nd.get_clones(add_self=True)),
            "isclone": bool(nd.is_clone()),
        })
    return {"by_data": by_data, "clones": clones}


def snapshot(b: core.Built):
    """re-bind ids: live nodes in pre-order become 1..n (what TLC's Compact does)"""
    try:
        with time_limit(60):
            return _snapshot(b)
    except StepTimeout:
        raise core.Unprojectable("did_not_terminate") from None


def _snapshot(b: core.Built):
    proj = core.project(b)
    st = proj["st"]
    order = []

    def walk(seq):
        for i in seq:
            order.append(i)
            walk(st["kids"][i - 1])

    walk(st["top"])
    keep = set(order)
    gone = [b.nodes[i] for i in range(1, len(b.nodes)) if i not in keep and b.nodes[i] is not None]
    if gone:
        b.grave = (b.grave + gone)[-8:]   # the caller still holds these handles ("stale" ops use them)
    b.nodes = [None] + [b.nodes[i] for i in order]
    return core.project(b)["st"]


def run_step(b: core.Built, op: dict, rec_id: int, src: core.Built | None = None, maxd: int = 4,
             pre_st: dict | None = None, extra: dict | None = None) -> dict:
    """Execute op on b (ids must be compact) and return the trace record."""
    try:
        with time_limit(60):
            return _run_step(b, op, rec_id, src, maxd, pre_st, extra)
    except StepTimeout:
        rec = {"id": rec_id, "fl": b.fl.name, "pre": pre_st if pre_st is not None else {}, "op": op, "status": "ok",
               "bad": "did_not_terminate"}
        if extra:
            rec.update(extra)
        return rec


def _run_step(b, op, rec_id, src, maxd, pre_st, extra):
    fl = b.fl
    if pre_st is None:
        pre_st = core.project(b)["st"]
    pre_nids = core.node_ids(b)
    src_before = core.project(src)["st"] if src is not None else None
    status, r = core.execute(b, op, src)
    rec = {"id": rec_id, "fl": fl.name, "pre": pre_st, "op": op, "status": status}
    if src is not None:
        rec["src"] = src_before
    try:
        proj = core.project(b, probe_dids(fl, maxd), pre_nids)
        rec["post"] = proj["st"]
        rec["obs"] = proj["obs"]
        try:
            rec["obs"].update(lookups(b, proj["st"], maxd))
        except core.Unprojectable:
            raise
        except Exception:
            rec["badwhere"] = "lookups"     # the structure could be read, the lookups / clone queries raised
            raise
        # an explicit node_id given to this call: found afterwards iff the call was carried out
        rec["obs"]["new_nid"] = [] if b.last_nid is None else [0 if b.tree.find_first(node_id=b.last_nid) is None else 1]
        rec["ret"] = core.ret_id(b, r) if status == "ok" else 0
    except core.Unprojectable as e:
        rec["bad"] = str(e)
    except Exception as e:  # noqa: BLE001
        rec["bad"] = f"{type(e).__name__}"
    if src is not None:
        try:
            rec["srcpost"] = "same" if core.project(src)["st"] == src_before else "changed"
        except Exception as e:  # noqa: BLE001
            rec["srcpost"] = f"unprojectable:{type(e).__name__}"
    if extra:
        rec.update(extra)
    return rec
