"""Observation battery for the serialised forms (C05, C12, C14)."""
from __future__ import annotations

import io
import itertools
import json
import os
import tempfile
import zipfile

from nutree import Tree
from nutree.typed_tree import TypedTree

from . import core, flavours
from .flavours import Item
from .queries import Ctx, call

KEY_MAPS = {
    "default": True,
    "off": False,
    "custom": {"data_id": "I", "str": "S", "kind": "K", "name": "N", "rank": "R"},
}
COMPRESSIONS = {"off": False, "true": True, "stored": zipfile.ZIP_STORED, "deflated": zipfile.ZIP_DEFLATED,
                "bzip2": zipfile.ZIP_BZIP2, "lzma": zipfile.ZIP_LZMA}
USER_META = {"foo": "bar", "n": 3, "$comment": "a user key that starts like the reserved ones"}


# ---------------------------------------------------------------------------------------------------
def ser_mapper(node, data):
    d = node.data
    if isinstance(d, Item):
        data["name"] = d.name
        data["rank"] = d.rank
    return data


def ser_mapper_inplace(node, data):
    """documented style: update `data` in place and return nothing"""
    ser_mapper(node, data)


def deser_consume(parent, data):
    """a deserialiser that takes the entry apart (Item(**fields) after popping what it does not need): the library has
    to read data_id / kind from the entry BEFORE it hands the entry to the mapper"""
    data.pop("data_id", None)
    data.pop("kind", None)
    if "name" in data:
        return Item(data.pop("name"), data.pop("rank"))
    return data.pop("str")


def deser_mapper(parent, data):
    if "name" in data:
        return Item(data["name"], data["rank"])
    if "str" in data:
        return data["str"]
    raise ValueError(f"cannot rebuild {data}")


class DerivedTree(Tree):
    @classmethod
    def serialize_mapper(cls, node, data):
        return ser_mapper(node, data)

    @classmethod
    def deserialize_mapper(cls, parent, data):
        return deser_mapper(parent, data)


class DerivedTypedTree(TypedTree):
    @classmethod
    def serialize_mapper(cls, node, data):
        return ser_mapper(node, data)

    @staticmethod
    def deserialize_mapper(parent, data):
        return deser_mapper(parent, data)


def value_map_for(fl, st, mode):
    if mode == "default":
        return True
    if mode == "off":
        return False
    if mode == "partial":
        # a caller-supplied map on a mapper key (int values) that does not list rank 2: a tree holding such a value
        # cannot be written "exactly as the header declares" - the writer has to refuse, never to write the value
        # verbatim (it would be read back as an index)
        return {"rank": [3, 1, 9, 8, 7]}
    vm = {}
    if fl.typed:
        vm["kind"] = [flavours.KINDS[k] for k in (3, 2, 1)]  # a custom order, all kinds listed
    if not fl.is_str:
        vm["name"] = list(reversed(flavours.NAMES))
    return vm


def tree_class(fl, derived):
    if derived:
        return DerivedTypedTree if fl.typed else DerivedTree
    return TypedTree if fl.typed else Tree


def build_tree(st, fl, derived):
    """like core.build but with a derived tree class when asked"""
    if not derived:
        return core.build(st, fl)
    orig = fl.new_tree
    fl.new_tree = lambda name=None: tree_class(fl, True)(name, calc_data_id=fl.calc_data_id())
    try:
        return core.build(st, fl)
    finally:
        fl.new_tree = orig


# ---------------------------------------------------------------------------------------------------
def canon_of(tree, fl):
    def walk(nodes):
        return [[fl.data_index(n.data), fl.model_did_of_node(n), fl.kind_id(n), walk(n.children)] for n in nodes]
    return walk(tree.children)


def decode_saved(text, fl):
    """Independent reading of the documented layout: undo exactly the maps the header declares."""
    obj = json.loads(text)
    header = obj["meta"]
    nodes = obj["nodes"]
    km = header.get("$key_map", {})
    inv = {v: k for k, v in km.items()}
    vm = header.get("$value_map", {})
    out = []
    keys_short = True
    values_short = True
    for pp, payload in nodes:
        e = {"pp": pp, "ref": 0, "d": 0, "xid": 0, "k": 0, "bare": False}
        if isinstance(payload, bool):
            raise TypeError("bool payload")
        if isinstance(payload, int):
            e["ref"] = payload
        elif isinstance(payload, str):
            e["bare"] = True
            e["d"] = fl.data_index(payload)
        else:
            full = {}
            for k, v in payload.items():
                if k in km:  # a long key although the header declares a short one for it
                    keys_short = False
                lk = inv.get(k, k)
                if lk in vm:
                    if isinstance(v, int) and not isinstance(v, bool):
                        v = vm[lk][v] if 0 <= v < len(vm[lk]) else "<index out of range>"
                    else:  # the header declares a value map for this key, but the value is stored unshortened
                        values_short = False
                full[lk] = v
            if "str" in full:
                e["d"] = fl.data_index(full["str"])
            elif "name" in full:
                e["d"] = fl.index_of_fields(full["name"], full.get("rank"))
            else:
                e["d"] = -1
            if "data_id" in full:
                e["xid"] = fl.model_did(full["data_id"])
                if fl.calc_data_id() is not None and e["xid"] == fl.model_default_did(e["d"]):
                    e["xid"] = 0     # a tree with an id callback stores every id; "explicit" means: not the callback's
            if "kind" in full:
                e["k"] = flavours.KIND_IDS.get(full["kind"], -1)
        out.append(e)
    return header, out, keys_short and values_short


def header_facts(header, km_arg, vm_arg, fl, meta):
    gen = isinstance(header.get("$generator"), str) and header["$generator"].startswith("nutree/")
    ver = header.get("$format_version") == "1.0"
    return {"generator": gen, "version": ver, "key_map_declared": "$key_map" in header,
            "value_map_declared": "$value_map" in header,
            "meta_ok": all(header.get(k) == v for k, v in (meta or {}).items())}


def read_file_text(path):
    if zipfile.is_zipfile(path):
        with zipfile.ZipFile(path) as zf:
            return zf.read(zf.namelist()[0]).decode("utf8")
    with open(path, encoding="utf8") as f:
        return f.read()


# ---------------------------------------------------------------------------------------------------
def render_doc(enc, fl, *, key_map=None, value_map=None, generator="nutree/0.0.0-ext", bare_ok=True, extra_meta=None,
               rename=None):
    """Independent encoder: the documented layout from TLC's Encode(S)."""
    km = key_map or {}
    vm = value_map or {}
    nodes = []
    for e in enc:
        if e["ref"]:
            nodes.append([e["pp"], e["ref"]])
            continue
        obj = fl.data(e["d"])
        if isinstance(obj, str) and not fl.typed and not e["xid"] and bare_ok:
            nodes.append([e["pp"], obj])
            continue
        d = {}
        if isinstance(obj, str):
            d["str"] = obj
        else:
            d["name"] = obj.name
            d["rank"] = obj.rank
        if e["xid"]:
            d["data_id"] = fl.real_did(e["xid"])
        if fl.typed:
            d["kind"] = fl.kind(e["k"])
        out = {}
        for k, v in d.items():
            if k in vm:
                v = vm[k].index(v)
            out[km.get(k, k)] = v
        if rename:
            out = {rename.get(k, k): v for k, v in out.items()}
        nodes.append([e["pp"], out])
    meta = {"$generator": generator, "$format_version": "1.0"}
    if km:
        meta["$key_map"] = km
    if vm:
        meta["$value_map"] = vm
    meta.update(extra_meta or {})
    return {"meta": meta, "nodes": nodes}


MALFORMED = {
    "no_meta": lambda doc: {"nodes": doc["nodes"]},
    "no_nodes": lambda doc: {"meta": doc["meta"]},
    "no_generator": lambda doc: {"meta": {k: v for k, v in doc["meta"].items() if k != "$generator"}, "nodes": doc["nodes"]},
    "foreign_generator": lambda doc: {"meta": dict(doc["meta"], **{"$generator": "othertool/1.0"}), "nodes": doc["nodes"]},
    "a_list": lambda doc: doc["nodes"],
    "a_string": lambda doc: "nutree/1.0",
}


# ---------------------------------------------------------------------------------------------------
def option_grid(fl, quick, salt):
    """(key_map, value_map, compression, target, derived) combinations; quick: a rotating pairwise sample"""
    kms = list(KEY_MAPS)
    vms = ["default", "off", "custom"] + ([] if fl.is_str else ["partial"])
    comps = list(COMPRESSIONS)
    full = []
    for km, vm in itertools.product(kms, vms):
        for comp in comps:
            full.append((km, vm, comp, "path"))
        full.append((km, vm, "off", "stream"))
        full.append((km, vm, "off", "stream_ascii"))   # a caller-opened file object with a narrow encoding
    full = [f + (d,) for f in full for d in ((False,) if hasattr(fl, "lib_mappers") else (False, True))]
    if not quick:
        return full
    n = len(full)
    pick = [full[(salt * 7 + i * 11) % n] for i in range(6)]
    part = [f for f in full if f[1] == "partial"]
    if part and not any(f[1] == "partial" for f in pick):
        pick.append(part[(salt * 5) % len(part)])
    return pick


def obs_serial(c: Ctx, enc, *, props, quick=True, salt=0, tmpdir=None):
    st, fl = c.st, c.b.fl
    out = []
    if "C03" in props:
        return obs_dup_routes(c, enc)
    is_item = not fl.is_str
    mapper_needed = is_item
    # ------------------------------------------------------------------ C14
    if "C14" in props and not fl.typed:
        def norm_dl(lst):
            def walk(items):
                res = []
                for it in items:
                    if is_item:
                        d = fl.index_of_fields(it["name"], it.get("rank")) if "name" in it else -1
                    else:
                        d = fl.data_index(it["data"])
                    if not isinstance(it["data"], str):
                        raise TypeError("data is not the string form")
                    xid = fl.model_did(it["data_id"]) if "data_id" in it else (fl.model_did(it["guid"]) if "guid" in it else 0)
                    if fl.calc_data_id() is not None and xid == fl.model_default_did(d):
                        xid = 0      # a tree with an id callback carries every id; "explicit" means: not the callback's
                    extra = set(it) - {"data", "data_id", "children", "name", "rank", "guid"}
                    if extra:
                        raise TypeError(f"unexpected keys {extra}")
                    if "children" in it and not it["children"]:
                        raise TypeError("empty children list")
                    res.append([d, xid, walk(it.get("children", []))])
                return res
            return walk(lst)

        # serialize mapper style: mutate-and-return vs. returning a new dict (both documented)
        ser = (ser_mapper if salt % 2 == 0 else (lambda node, data: ser_mapper(node, dict(data)))) if is_item else None
        deser = (lambda parent, item: Item(item["name"], item["rank"])) if is_item else None
        own = hasattr(fl, "lib_mappers")     # the flavour brings its mapper pair
        if own:
            ser, deser = fl.lib_mappers
        if is_item and not own and salt % 3 == 1:
            # a serialiser that builds its result from scratch (only the fields it knows about)
            def ser(node, data):   # noqa: F811
                out = {"data": data["data"], "name": node.data.name, "rank": node.data.rank}
                if "data_id" in data:
                    out["data_id"] = data["data_id"]
                return out
        relocate = is_item and not own and salt % 3 == 0
        if relocate:
            # an inverse mapper pair that keeps the id under a domain key: the serialiser moves data_id to 'guid',
            # the deserialiser restores it by setting item['data_id'] ("mapper may add item['data_id']")
            def ser(node, data):   # noqa: F811
                data = ser_mapper(node, dict(data))
                if "data_id" in data:
                    data["guid"] = data.pop("data_id")
                return data

            def deser(parent, item):   # noqa: F811
                if "guid" in item:
                    item["data_id"] = item["guid"]
                return Item(item["name"], item["rank"])
        for via in ("plain", "json"):
            def get(via=via):
                dl = c.b.tree.to_dict_list(mapper=ser)
                if via == "json":
                    dl = json.loads(json.dumps(dl))
                return dl
            out.append({"q": "dictlist", "a": {"via": via}, "r": call(get, norm_dl)})

            def back(via=via):
                dl = c.b.tree.to_dict_list(mapper=ser)
                if via == "json":
                    dl = json.loads(json.dumps(dl))
                keep = json.dumps(dl, sort_keys=True, default=str)
                t2 = Tree.from_dict(dl, mapper=deser)
                if type(t2) is not Tree:
                    raise TypeError("not a Tree")
                if not relocate and json.dumps(dl, sort_keys=True, default=str) != keep:
                    # the caller's structure is input, not scratch space (the relocating deserialiser edits its
                    # items on purpose: "mapper may add item['data_id']")
                    raise TypeError("from_dict() modified the list-of-dicts it was given")
                t3 = Tree.from_dict(dl, mapper=deser)      # ... and can be used again
                if canon_of(t3, fl) != canon_of(t2, fl):
                    raise TypeError("a second from_dict() of the same structure gives a different tree")
                return t2
            out.append({"q": "from_dict", "a": {"via": via}, "r": call(back, lambda t2: canon_of(t2, fl))})
        if st["n"] > 0:
            def after_clear():
                b2 = core.build(st, fl)
                b2.tree.clear()
                return b2.tree.to_dict_list()
            # the empty tree: also after clear()
            out.append({"q": "dictlist", "a": {"via": "after_clear", "empty": True}, "r": call(after_clear, lambda v: v)})
    # ------------------------------------------------------------------ C05 / C12 writing side
    if props & {"C05", "C12"}:
        for km_mode, vm_mode, comp, target, derived in option_grid(fl, quick, salt):
            b = build_tree(st, fl, derived)
            tree = b.tree
            before = core.project(b)["st"]
            km_arg = KEY_MAPS[km_mode]
            vm_arg = value_map_for(fl, st, vm_mode)
            kw = {"key_map": km_arg, "value_map": vm_arg, "meta": dict(USER_META)}
            if hasattr(fl, "lib_mappers"):
                kw["mapper"] = fl.lib_mappers[0]
            elif not derived and mapper_needed:
                kw["mapper"] = (ser_mapper, (lambda node, data: ser_mapper(node, dict(data))), ser_mapper_inplace)[salt % 3]
            load_kw = {}
            # string data under explicit (or callback-made) ids is stored as {"str":, "data_id":} entries, which the
            # default deserialize mapper reads: a callback is passed only every other time
            dict_entries = fl.calc_data_id() is not None or \
                any(st["did"][i] != fl.model_default_did(st["dat"][i]) for i in range(st["n"]))
            need_load_mapper = mapper_needed or (dict_entries and salt % 2 == 0)
            if hasattr(fl, "lib_mappers"):
                load_kw["mapper"] = fl.lib_mappers[1]
            elif not derived and need_load_mapper:
                load_kw["mapper"] = deser_mapper if (salt // 2) % 2 else deser_consume
            cls = tree_class(fl, derived)
            a = {"key_map": km_mode, "value_map": vm_mode, "compression": comp, "target": target, "derived": derived,
                 "is_str": fl.is_str, "strs": fl.str_values()}
            if vm_mode == "partial":   # a value occurs that the caller's map does not list
                a["partial"] = any(st["par"][i] != -1 and st["dat"][i] == 2 for i in range(st["n"]))
            # what the header must declare: the maps in use
            a["key_map_used"] = km_arg is True or bool(km_arg)
            a["value_map_used"] = (vm_arg is not False) if fl.typed else (isinstance(vm_arg, dict) and bool(vm_arg))
            text_holder = {}
            import copy as _copy
            kw_before = _copy.deepcopy({k: v for k, v in kw.items() if k != "mapper"})

            def args_same(kw=kw, kw_before=kw_before):
                """the dicts the caller passed (key_map, value_map, meta) are the caller's: save() must not edit them"""
                return {k: v for k, v in kw.items() if k != "mapper"} == kw_before

            def do_save(tree=tree, kw=kw, comp=comp, target=target):
                if target == "stream":
                    fp = io.StringIO()
                    tree.save(fp, **kw)
                    text_holder["text"] = fp.getvalue()
                    text_holder["path"] = None
                elif target == "stream_ascii":
                    path = os.path.join(tmpdir, f"a{salt}_{km_mode}_{vm_mode}_{int(derived)}.json")
                    with open(path, "w", encoding="ascii") as fp:
                        tree.save(fp, **kw)
                    with open(path, encoding="ascii") as fp:
                        text_holder["text"] = fp.read()
                    text_holder["path"] = None
                    os.unlink(path)
                else:
                    path = os.path.join(tmpdir, f"t{salt}_{km_mode}_{vm_mode}_{comp}_{int(derived)}.nutree")
                    tree.save(path, compression=COMPRESSIONS[comp], **kw)
                    text_holder["path"] = path
                    text_holder["text"] = read_file_text(path)
                return text_holder["text"]

            def norm_saved(text, km_arg=km_arg, vm_arg=vm_arg):
                header, lst, keys_short = decode_saved(text, fl)
                facts = header_facts(header, km_arg, vm_arg, fl, USER_META)
                facts["list"] = lst
                facts["keys_short"] = keys_short
                facts["args_same"] = args_same()
                return facts

            saved = call(do_save, norm_saved)
            if "C12" in props:
                out.append({"q": "saved", "a": a, "r": saved})
            if "C05" in props:
                def do_load(cls=cls, load_kw=load_kw):
                    meta = {}
                    if text_holder.get("path"):
                        if salt % 2:       # the file is renamed before it is read (its name is not part of the format)
                            moved = text_holder["path"] + ".moved.bin"
                            os.replace(text_holder["path"], moved)
                            text_holder["path"] = moved
                        t2 = cls.load(text_holder["path"], file_meta=meta, **load_kw)
                    else:
                        t2 = cls.load(io.StringIO(text_holder["text"]), file_meta=meta, **load_kw)
                    return t2, meta

                def norm_load(res, cls=cls, b=b, before=before):
                    t2, meta = res
                    return {"canon": canon_of(t2, fl), "cls": type(t2) is cls,
                            "meta_ok": all(meta.get(k) == v for k, v in USER_META.items()),
                            "src_same": core.project(b)["st"] == before and fl.content_intact(),
                            "args_same": args_same()}
                if saved["s"] == "ok":
                    out.append({"q": "roundtrip", "a": a, "r": call(do_load, norm_load)})
                elif a.get("partial"):
                    pass    # legitimately refused: nothing to read back
                else:
                    out.append({"q": "roundtrip", "a": a, "r": {"s": "save:" + saved["s"], "v": 0}})
            if text_holder.get("path"):
                try:
                    os.unlink(text_holder["path"])
                except OSError:
                    pass
    # ------------------------------------------------------------------ C12 reading side
    strict = getattr(fl, "strict_docs", False)     # strings + objects with a deserialiser that knows its objects only
    if "C12" in props and (strict or not hasattr(fl, "lib_mappers")):
        cls = tree_class(fl, False)
        # documents holding only strings (bare, or as {"str":[, "data_id":][, "kind":]} entries) need no callback
        load_kw = {} if fl.is_str and salt % 2 else {"mapper": deser_mapper}
        if strict:
            load_kw = {"mapper": fl.lib_mappers[1]}
        variants = {
            "plain": {},
            # no key map in the header although the entries use the short names of the default map as USER keys
            "short_user_keys": {"rename": {"name": "s", "rank": "i", "str": "str", "data_id": "data_id", "kind": "kind"}}
            if is_item else {},
            "keymap": {"key_map": {"data_id": "i", "str": "s", "kind": "k", "name": "n", "rank": "r"}},
            "keymap+valuemap": {"key_map": {"data_id": "i", "str": "s", "kind": "k", "name": "nm"},
                                "value_map": ({"kind": [flavours.KINDS[k] for k in (2, 1, 3)]} if fl.typed else
                                              ({"name": list(flavours.NAMES)} if is_item else {}))},
            "dicts_only": {"bare_ok": False},
            # values shortened, keys verbose: a header with $value_map but no $key_map (save(key_map=False) writes it)
            "valuemap_only": {"value_map": ({"kind": [flavours.KINDS[k] for k in (3, 1, 2)]} if fl.typed else
                                            ({"name": list(reversed(flavours.NAMES))} if is_item else {}))},
        }
        def deser_short(parent, data):   # mapper of a user whose own keys are 's' and 'i'
            return Item(data["s"], data["i"]) if "s" in data else deser_mapper(parent, data)

        if strict:   # (entries the strict deserialiser would be handed although they are not its objects: left out)
            variants = {k: v for k, v in variants.items() if k in ("plain", "keymap", "keymap+valuemap", "valuemap_only")}
        for dname, kw in variants.items():
            doc = render_doc(enc, fl, **kw)
            a = {"doc": dname, "expect": "ok"}
            lkw = {"mapper": deser_short} if dname == "short_user_keys" and is_item else load_kw
            out.append({"q": "load_ext", "a": a, "r": call(
                lambda doc=doc, lkw=lkw: cls.load(io.StringIO(json.dumps(doc)), **lkw), lambda t2: {"canon": canon_of(t2, fl)})})
        if salt % 3 == 0 and tmpdir:
            # a compressed document produced by other means: a zip archive whose single member has any name
            doc = render_doc(enc, fl)
            zpath = os.path.join(tmpdir, f"ext{salt}.nutree")

            def load_zipped(doc=doc, zpath=zpath, lkw=load_kw):
                with zipfile.ZipFile(zpath, "w", compression=zipfile.ZIP_DEFLATED) as zf:
                    zf.writestr("tree.json", json.dumps(doc))
                try:
                    return cls.load(zpath, **lkw)
                finally:
                    os.unlink(zpath)
            out.append({"q": "load_ext", "a": {"doc": "zipped_by_other_means", "expect": "ok"},
                        "r": call(load_zipped, lambda t2: {"canon": canon_of(t2, fl)})})
        if salt % 5 == 0:
            doc = render_doc(enc, fl)
            for mname, mk in MALFORMED.items():
                a = {"doc": mname, "expect": "RuntimeError"}
                out.append({"q": "load_ext", "a": a, "r": call(
                    lambda mk=mk: cls.load(io.StringIO(json.dumps(mk(doc))), **load_kw), lambda t2: {"canon": canon_of(t2, fl)})})
    return out


# ------------------------------------------------------------------------------------------------ C03 routes: load / from_dict
def obs_dup_routes(c: Ctx, enc):
    """documents describing a tree with two siblings of the same data_id (a sibling entry repeated, or a clone
    reference pointing at a sibling) must be refused with the uniqueness error by load() and from_dict()"""
    st, fl = c.st, c.b.fl
    out = []
    if st["n"] == 0:
        return out
    cls = tree_class(fl, False)
    enc = [dict(e) for e in enc]
    # (1) repeat the last entry below the same parent
    last = enc[-1]
    doc = render_doc(enc + [dict(last)], fl)
    out.append({"q": "dup_route", "a": {"route": "load:repeated_entry"},
                "r": call(lambda: cls.load(io.StringIO(json.dumps(doc)), mapper=deser_mapper), lambda t: 0)})
    # (2) a clone reference to a sibling: entry [parent of e, position of e]
    for pos, e in enumerate(enc, 1):
        if not e["ref"]:
            doc2 = render_doc(enc, fl)
            doc2["nodes"].append([e["pp"], pos])
            out.append({"q": "dup_route", "a": {"route": "load:reference_to_sibling"},
                        "r": call(lambda doc2=doc2: cls.load(io.StringIO(json.dumps(doc2)), mapper=deser_mapper), lambda t: 0)})
            break
    # (3) from_dict with a repeated dict in one children list
    if fl.is_str and not fl.typed:
        dl = c.b.tree.to_dict_list()

        def dup_first_level(items):
            return items + [json.loads(json.dumps(items[-1]))]
        out.append({"q": "dup_route", "a": {"route": "from_dict:repeated_top_item"},
                    "r": call(lambda: Tree.from_dict(dup_first_level(json.loads(json.dumps(dl)))), lambda t: 0)})
        for it in dl:
            if it.get("children"):
                it2 = json.loads(json.dumps(dl))
                for x in it2:
                    if x.get("children"):
                        x["children"] = dup_first_level(x["children"])
                        break
                out.append({"q": "dup_route", "a": {"route": "from_dict:repeated_child_item"},
                            "r": call(lambda it2=it2: Tree.from_dict(it2), lambda t: 0)})
                break
    return out
