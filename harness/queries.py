"""Observation batteries for the read-only API (C06, C09, C10, C15, C16).

Each function runs public read-only calls on a built tree and returns observations
{q, a, r: {s, v}} with answers normalised to model ids / ints / bools.  No answer is judged here."""
from __future__ import annotations

import itertools
import re
import warnings

from nutree import IterMethod
from nutree.common import CONNECTORS, SkipBranch, StopTraversal
from nutree.typed_tree import ANY_KIND

from . import core

METHODS = {
    "pre": IterMethod.PRE_ORDER, "post": IterMethod.POST_ORDER, "level": IterMethod.LEVEL_ORDER,
    "level_rtl": IterMethod.LEVEL_ORDER_RTL, "zigzag": IterMethod.ZIGZAG, "zigzag_rtl": IterMethod.ZIGZAG_RTL,
}


class Ctx:
    def __init__(self, b: core.Built, st: dict):
        self.b = b
        self.st = st
        self.ident = {id(nd): i for i, nd in enumerate(b.nodes) if nd is not None}
        self.ident[id(b.tree.system_root)] = 0

    def nid(self, x):
        if x is None:
            return 0
        return self.ident.get(id(x), -2)

    def ids(self, xs):
        return [self.nid(x) for x in xs]

    def obj(self, i):
        return self.b.tree if i == 0 else self.b.nodes[i]


def call(fn, norm):
    """run fn; normalise its answer with norm; exceptions become the status"""
    try:
        with warnings.catch_warnings():
            warnings.simplefilter("ignore")
            v = fn()
        try:
            return {"s": "ok", "v": norm(v)}
        except Exception as e:  # noqa: BLE001
            return {"s": f"badtype:{type(e).__name__}", "v": 0}
    except Exception as e:  # noqa: BLE001
        return {"s": type(e).__name__, "v": 0}


def _bool(v):
    if not isinstance(v, bool):
        raise TypeError
    return v


def _int(v):
    if isinstance(v, bool) or not isinstance(v, int):
        raise TypeError
    return v


# ------------------------------------------------------------------------------------------------ C06
SKIP_FORMS = ["ret_class", "ret_inst", "raise"]
STOP_FORMS = ["raise_val", "ret_inst_val", "ret_class", "false", "raise_stopiter", "ret_stopiter_class",
              "ret_stopiter_inst"]
STOP_VAL = {"raise_val": 7, "ret_inst_val": 7, "ret_class": 0, "false": 0, "raise_stopiter": 7,
            "ret_stopiter_class": 0, "ret_stopiter_inst": 7}


def _visit_once(c: Ctx, start, m, self_, v, skip_form, stop_form):
    seq = []

    def cb(node, memo):
        i = c.nid(node)
        seq.append(i)
        vd = v[i - 1] if 1 <= i <= len(v) else "none"
        if vd == "skip":
            if skip_form == "ret_class":
                return SkipBranch
            if skip_form == "ret_inst":
                return SkipBranch()
            raise SkipBranch
        if vd == "stop":
            if stop_form == "raise_val":
                raise StopTraversal(7)
            if stop_form == "ret_inst_val":
                return StopTraversal(7)
            if stop_form == "ret_class":
                return StopTraversal
            if stop_form == "false":
                return False
            if stop_form == "raise_stopiter":
                raise StopIteration(7)
            if stop_form == "ret_stopiter_class":
                return StopIteration
            if stop_form == "ret_stopiter_inst":
                return StopIteration(7)
        return None

    def run():
        if start == 0:
            return c.b.tree.visit(cb, method=METHODS[m])
        return c.b.nodes[start].visit(cb, add_self=self_, method=METHODS[m])

    def norm(ret):
        if ret is None:
            r = 0
        elif isinstance(ret, int) and not isinstance(ret, bool):
            r = ret
        else:
            r = -1
        return {"seq": list(seq), "ret": r}

    return call(run, norm)


def obs_c06(c: Ctx, *, all_assign_max=4, forms="rotate"):
    st = c.st
    n = st["n"]
    out = []
    starts = [0] + list(range(1, n + 1))
    for s in starts:
        for m, im in METHODS.items():
            for self_ in ((False,) if s == 0 else (False, True)):
                if s == 0:
                    fn = lambda im=im: list(c.b.tree.iterator(im))  # noqa: E731
                else:
                    fn = lambda s=s, im=im, self_=self_: list(c.b.nodes[s].iterator(im, add_self=self_))  # noqa: E731
                out.append({"q": "iter", "a": {"start": s, "m": m, "self": self_}, "r": call(fn, c.ids)})
    for m, im in (("unordered", IterMethod.UNORDERED), ("random", IterMethod.RANDOM_ORDER)):
        out.append({"q": "iter_set", "a": {"m": m}, "r": call(lambda im=im: list(c.b.tree.iterator(im)), c.ids)})
    # default iteration protocols
    out.append({"q": "iter", "a": {"start": 0, "m": "pre", "self": False}, "r": call(lambda: list(c.b.tree), c.ids)})
    k = 0
    for s in starts:
        for m in ("pre", "post", "level"):
            for self_ in ((False,) if s == 0 else (False, True)):
                none = ["none"] * n
                a = {"start": s, "m": m, "self": self_, "v": none, "form": "none", "val": 0}
                out.append({"q": "visit", "a": a, "r": _visit_once(c, s, m, self_, none, "raise", "raise_val")})
                for x in range(1, n + 1):
                    for kind in ("skip", "stop"):
                        if kind == "skip" and m == "post":
                            continue  # documented: not supported with post-order
                        flist = SKIP_FORMS if kind == "skip" else STOP_FORMS
                        if forms == "rotate":
                            flist = [flist[k % len(flist)]]
                            k += 1
                        for f in flist:
                            v = list(none)
                            v[x - 1] = kind
                            a = {"start": s, "m": m, "self": self_, "v": v, "form": f"{kind}:{f}",
                                 "val": STOP_VAL[f] if kind == "stop" else 0}
                            r = _visit_once(c, s, m, self_, v, f if kind == "skip" else "raise", f if kind == "stop" else "raise_val")
                            out.append({"q": "visit", "a": a, "r": r})
    if 0 < n <= all_assign_max:
        for m in ("pre", "level", "post"):
            choices = ("none", "skip", "stop") if m != "post" else ("none", "stop")
            for v in itertools.product(choices, repeat=n):
                if all(x == "none" for x in v):
                    continue
                sf = SKIP_FORMS[k % 3]
                tf = STOP_FORMS[k % len(STOP_FORMS)]
                k += 1
                a = {"start": 0, "m": m, "self": False, "v": list(v), "form": f"all:{sf}/{tf}", "val": STOP_VAL[tf]}
                out.append({"q": "visit", "a": a, "r": _visit_once(c, 0, m, False, list(v), sf, tf)})
    return out


# ------------------------------------------------------------------------------------------------ C09
PATTERNS = ["a", "ab", "a|b", "a.*", ".*a", "[ab]+", ".", "..", "", ".*", "b|ba", ("A", re.IGNORECASE), ("AB?", re.I)]


def obs_c09(c: Ctx, *, D):
    st, fl, tree = c.st, c.b.fl, c.b.tree
    n = st["n"]
    out = []
    names = {i: c.b.nodes[i].name for i in range(1, n + 1)}
    starts = [0] + list(range(1, n + 1))

    def match_set(p):
        if isinstance(p, tuple):
            rx = re.compile(p[0], p[1])
        else:
            rx = re.compile(p)
        return sorted(i for i, nm in names.items() if rx.fullmatch(nm))

    for p in PATTERNS:
        M = match_set(p)
        for s in starts:
            for self_ in ((False,) if s == 0 else (False, True)):
                for k in [0] + list(range(1, n + 2)):
                    kw = {} if k == 0 else {"max_results": k}
                    if s == 0:
                        fn = lambda p=p, kw=kw: tree.find_all(match=p, **kw)  # noqa: E731
                    else:
                        fn = lambda s=s, p=p, kw=kw, self_=self_: c.b.nodes[s].find_all(match=p, add_self=self_, **kw)  # noqa: E731
                    out.append({"q": "find_all", "a": {"start": s, "self": self_, "M": M, "k": k, "via": "pattern",
                                                       "p": str(p)}, "r": call(fn, c.ids)})
            fn = (lambda p=p: tree.find_first(match=p)) if s == 0 else (lambda s=s, p=p: c.b.nodes[s].find_first(match=p))
            out.append({"q": "find_first", "a": {"start": s, "M": M, "via": "pattern", "p": str(p)}, "r": call(fn, c.nid)})
            if s == 0:
                out.append({"q": "find_first", "a": {"start": 0, "M": M, "via": "find_alias", "p": str(p)},
                            "r": call(lambda p=p: tree.find(match=p), c.nid)})
    # predicates: every subset of the nodes (n <= 4), else a sample
    subsets = []
    ids = list(range(1, n + 1))
    if n <= 4:
        for r in range(n + 1):
            subsets += [list(x) for x in itertools.combinations(ids, r)]
    else:
        subsets = [[], ids, ids[::2], ids[1::2], ids[:1], ids[-1:]]
    TRUTHY = [(True, False), (1, 0), ("yes", ""), (re.compile("x").match("x"), None), ([0], [])]
    for mi, M in enumerate(subsets):
        ms = set(M)
        # a predicate answers "match" with any truthy value (re.search(...), a count, ...): the forms rotate
        yes, no = TRUTHY[mi % len(TRUTHY)]
        pred = lambda node, ms=ms, yes=yes, no=no: yes if c.nid(node) in ms else no  # noqa: E731
        for s in starts:
            for self_ in ((False,) if s == 0 else (False, True)):
                for k in [0] + list(range(1, n + 2)):
                    kw = {} if k == 0 else {"max_results": k}
                    if s == 0:
                        fn = lambda kw=kw, pred=pred: tree.find_all(match=pred, **kw)  # noqa: E731
                    else:
                        fn = lambda s=s, kw=kw, pred=pred, self_=self_: c.b.nodes[s].find_all(match=pred, add_self=self_, **kw)  # noqa: E731
                    out.append({"q": "find_all", "a": {"start": s, "self": self_, "M": M, "k": k, "via": "predicate"},
                                "r": call(fn, c.ids)})
            fn = (lambda pred=pred: tree.find_first(match=pred)) if s == 0 else (lambda s=s, pred=pred: c.b.nodes[s].find_first(match=pred))
            out.append({"q": "find_first", "a": {"start": s, "M": M, "via": "predicate"}, "r": call(fn, c.nid)})
    # branch search by data / data_id (ordered: pre-order)
    for d in range(1, D + 1):
        md = fl.model_default_did(d)
        M = [i for i in ids if st["did"][i - 1] == md]
        node_of = lambda s: tree.system_root if s == 0 else c.b.nodes[s]  # noqa: E731  (0: the Node API of the system root)
        for s in [0] + ids:
            for self_ in ((False,) if s == 0 else (False, True)):
                for k in [0] + list(range(1, n + 2)):
                    kw = {} if k == 0 else {"max_results": k}
                    out.append({"q": "find_all", "a": {"start": s, "self": self_, "M": M, "k": k, "via": "node_data"},
                                "r": call(lambda s=s, d=d, kw=kw, self_=self_: node_of(s).find_all(fl.data(d), add_self=self_, **kw), c.ids)})
                    out.append({"q": "find_all", "a": {"start": s, "self": self_, "M": M, "k": k, "via": "node_data_id"},
                                "r": call(lambda s=s, md=md, kw=kw, self_=self_: node_of(s).find_all(data_id=fl.real_did(md), add_self=self_, **kw), c.ids)})
            out.append({"q": "find_first", "a": {"start": s, "M": M, "via": "node_data"},
                        "r": call(lambda s=s, d=d: node_of(s).find_first(fl.data(d)), c.nid)})
    # index access
    for d in range(1, D + 2):
        out.append({"q": "getitem", "a": {"key": {"t": "data", "v": d}}, "r": call(lambda d=d: tree[fl.data(d)], c.nid)})
    for md in sorted(set(st["did"]) | {12}):
        rd = fl.real_did(md)
        if md not in st["did"] and isinstance(rd, str) and any(fl.real_did(x) == hash(rd) for x in st["did"]):
            continue    # (an absent str key is then looked up as DATA: hash("") = 0 is the explicit id of another node)
        if isinstance(rd, (int, str)) and not isinstance(rd, bool):
            out.append({"q": "getitem", "a": {"key": {"t": "did", "v": md}}, "r": call(lambda rd=rd: tree[rd], c.nid)})
    for i in ids:
        out.append({"q": "getitem", "a": {"key": {"t": "nid", "v": i}},
                    "r": call(lambda i=i: tree[c.b.nodes[i].node_id], c.nid)})
        out.append({"q": "getitem", "a": {"key": {"t": "node", "v": i}}, "r": call(lambda i=i: tree[c.b.nodes[i]], c.nid)})
    out.append({"q": "getitem", "a": {"key": {"t": "nid", "v": 99}}, "r": call(lambda: tree[987654321987], c.nid)})
    # resolution order node_id -> data_id -> data: an int key that is the (custom) node_id of node i AND the
    # data_id of another node j must resolve to node i
    for i in ids:
        for j in ids:
            rd = fl.real_did(st["did"][j - 1])
            if i == j or isinstance(rd, bool) or not isinstance(rd, int) or rd == 0:
                continue
            if any(fl.real_did(st["did"][k - 1]) == rd for k in ids if k != j and st["did"][k - 1] != st["did"][j - 1]):
                continue

            def lookup(i=i, rd=rd):
                b2 = core.build(st, fl, node_ids={i: rd})
                r = b2.tree[rd]
                for k, nd in enumerate(b2.nodes):
                    if nd is r:
                        return k
                return -2
            out.append({"q": "getitem", "a": {"key": {"t": "nid", "v": i}, "note": "node_id equals a data_id"},
                        "r": call(lookup, _int)})
    return out


# ------------------------------------------------------------------------------------------------ C10
def obs_c10(c: Ctx):
    st, fl, tree = c.st, c.b.fl, c.b.tree
    n = st["n"]
    out = []

    name_to_d = {str(fl.data(d)): d for d in range(1, 9)}

    def rel(nd):
        def path_dat(p):
            return [name_to_d.get(x, -1) for x in p.split("/")[1:]] if p.startswith("/") else [-2]

        return {
            "parent": c.nid(nd.parent),
            "children": c.ids(nd.children),
            "sibs": c.ids(nd.get_siblings()),
            "sibs_self": c.ids(nd.get_siblings(add_self=True)),
            "first_sib": c.nid(nd.first_sibling()),
            "last_sib": c.nid(nd.last_sibling()),
            "prev": c.nid(nd.prev_sibling()),
            "next": c.nid(nd.next_sibling()),
            "index": _int(nd.get_index()),
            "depth": _int(nd.depth()),
            "height": _int(nd.calc_height()),
            "top": c.nid(nd.get_top()),
            "anc": c.ids(nd.get_parent_list()),
            "anc_self_bu": c.ids(nd.get_parent_list(add_self=True, bottom_up=True)),
            "path": path_dat(nd.path),
            "path_noself": path_dat(nd.get_path(add_self=False)) if nd.get_path(add_self=False) != "/" else [],
            "ndesc": _int(nd.count_descendants()),
            "nleaves": _int(nd.count_descendants(leaves_only=True)),
            "is_top": _bool(nd.is_top()),
            "is_leaf": _bool(nd.is_leaf()),
            "is_first": _bool(nd.is_first_sibling()),
            "is_last": _bool(nd.is_last_sibling()),
            "has_children": _bool(nd.has_children()),
            "first_child": c.nid(nd.first_child()),
            "last_child": c.nid(nd.last_child()),
        }

    for i in range(1, n + 1):
        nd = c.b.nodes[i]
        r = call(lambda nd=nd: rel(nd), lambda v: v)
        out.append({"q": "rel", "a": {"x": i}, "r": r})
        depth = len(nd.get_parent_list()) + 1
        for level in range(1, depth + 3):
            def up(nd=nd, level=level):
                try:
                    return c.nid(nd.up(level))
                except ValueError:
                    return -1
            out.append({"q": "up", "a": {"x": i, "level": level}, "r": call(up, _int)})
    for i in range(1, n + 1):
        for j in range(1, n + 1):
            a, b2 = c.b.nodes[i], c.b.nodes[j]
            out.append({"q": "pair", "a": {"x": i, "y": j}, "r": call(
                lambda a=a, b2=b2: {"anc": _bool(a.is_ancestor_of(b2)), "desc": _bool(a.is_descendant_of(b2)),
                                    "common": c.nid(a.get_common_ancestor(b2))}, lambda v: v)})
    if n:
        # a second tree of the same shape whose nodes carry the SAME node_ids: nodes of different trees are unrelated
        twin = core.build(st, fl, node_ids={i: c.b.nodes[i].node_id for i in range(1, n + 1)}, name="twin")
        for i in range(1, n + 1):
            for j in sorted({1, i, n}):
                a, b2 = c.b.nodes[i], twin.nodes[j]
                out.append({"q": "pair_foreign", "a": {"x": i, "y": j}, "r": call(
                    lambda a=a, b2=b2: {"anc": _bool(a.is_ancestor_of(b2)), "desc": _bool(a.is_descendant_of(b2)),
                                        "common": c.nid(a.get_common_ancestor(b2))}, lambda v: v)})
    if not fl.typed:
        out.append({"q": "tree", "a": {}, "r": call(
            lambda: {"height": _int(tree.calc_height()), "children": c.ids(tree.children),
                     "first": c.nid(tree.first_child()), "last": c.nid(tree.last_child())}, lambda v: v)})
    return out


# ------------------------------------------------------------------------------------------------ C15
def obs_c15(c: Ctx, kinds=(1, 2, 3)):
    st, fl, tree = c.st, c.b.fl, c.b.tree
    n = st["n"]
    out = []

    def karg(k):
        return ANY_KIND if k == 0 else fl.kind(k)

    for i in range(1, n + 1):
        nd = c.b.nodes[i]
        for any_ in (False, True):
            def trel(nd=nd, any_=any_):
                return {
                    "sibs": c.ids(nd.get_siblings(any_kind=any_)),
                    "sibs_self": c.ids(nd.get_siblings(add_self=True, any_kind=any_)),
                    "first_sib": c.nid(nd.first_sibling(any_kind=any_)),
                    "last_sib": c.nid(nd.last_sibling(any_kind=any_)),
                    "prev": c.nid(nd.prev_sibling(any_kind=any_)),
                    "next": c.nid(nd.next_sibling(any_kind=any_)),
                    "index": _int(nd.get_index(any_kind=any_)),
                    "is_first": _bool(nd.is_first_sibling(any_kind=any_)),
                    "is_last": _bool(nd.is_last_sibling(any_kind=any_)),
                }
            out.append({"q": "trel", "a": {"x": i, "any": any_}, "r": call(trel, lambda v: v)})
        for k in (0,) + tuple(kinds):
            def kq(nd=nd, k=k):
                return {"children": c.ids(nd.get_children(karg(k))), "first": c.nid(nd.first_child(karg(k))),
                        "last": c.nid(nd.last_child(karg(k))), "has": _bool(nd.has_children(karg(k)))}
            out.append({"q": "kindq", "a": {"p": i, "k": k}, "r": call(kq, lambda v: v)})
    for k in (0,) + tuple(kinds):
        out.append({"q": "kindq", "a": {"p": 0, "k": k}, "r": call(
            lambda k=k: {"first": c.nid(tree.first_child(karg(k))), "last": c.nid(tree.last_child(karg(k)))}, lambda v: v)})
        out.append({"q": "iter_by_type", "a": {"k": k}, "r": call(lambda k=k: list(tree.iter_by_type(karg(k))), c.ids)})
    return out


# ------------------------------------------------------------------------------------------------ C16
CUSTOM_STYLES = {
    "custom4": ("..", "|.", "`-", "+-"),
    "custom6": ("  ", "! ", "L_", "T_", "Lv", "Tv"),
}


def _tokenize(prefix: str, style):
    """unique parse of prefix as (s0|s1)* (s2|s3|s4|s5)?  -> list of segment indexes, or None if not unique"""
    segs = list(style) if len(style) == 6 else list(style) + [None, None]
    res = []

    def rec(pos, acc):
        if pos == len(prefix):
            res.append(list(acc))
            return
        for idx in (0, 1):
            s = segs[idx]
            if s and prefix.startswith(s, pos):
                rec(pos + len(s), acc + [idx])
        for idx in (2, 3, 4, 5):
            s = segs[idx]
            if s and prefix.startswith(s, pos) and pos + len(s) == len(prefix):
                res.append(acc + [idx])

    rec(0, [])
    uniq = []
    for r in res:
        if r not in uniq:
            uniq.append(r)
    return uniq[0] if len(uniq) == 1 else None


def style_is_decodable(style):
    segs = list(style)
    return len(set(segs)) == len(segs)


def obs_c16(c: Ctx, *, styles=None, rotate=0):
    st, tree = c.st, c.b.tree
    n = st["n"]
    out = []
    all_styles = dict(CONNECTORS)
    all_styles.update(CUSTOM_STYLES)
    names = list(all_styles) if styles is None else styles
    marker = "\u0001"

    def rendering(nd):
        return f"{marker}#{c.nid(nd)}{marker}"

    def rendering_blanks(nd):   # a rendering that ends with white space must be emitted as it is
        return f"{marker}#{c.nid(nd)}{marker}  "

    # string repr: usable when node names are unique (shape states: data value = pre-order position)
    name_ids = {}
    for i in range(1, n + 1):
        name_ids.setdefault(c.b.nodes[i].name, []).append(i)
    rendering_str = "\u0001{node.name}\u0001" if all(len(v) == 1 for v in name_ids.values()) else rendering

    lenonly_holder = {"v": False}
    tail_expected = {"v": ""}

    def parse(text, join, style_tuple, expect_title):
        lines = text.split(join) if text else []
        title = "none"
        if expect_title is not None and lines and marker not in lines[0]:
            first = lines.pop(0)
            title = "default" if first == f"{tree}" else ("text" if first == "My Title" else "other")
        ids, prefixes = [], []
        for ln in lines:
            pos = ln.index(marker)
            tok = ln[pos + 1:ln.index(marker, pos + 1)]
            tail = ln[ln.index(marker, pos + 1) + 1:]
            if tail != tail_expected["v"]:
                raise TypeError("the line is not prefix + rendering")
            ids.append(int(tok[1:]) if tok.startswith("#") else name_ids.get(tok, [-2])[0])
            px = ln[:pos]
            if style_tuple is None:
                prefixes.append([] if px == "" else [9])
            elif lenonly_holder["v"]:
                L = len(style_tuple[0])
                prefixes.append([-1] * (len(px) // L) if len(px) % L == 0 else [-9])
            else:
                tk = _tokenize(px, style_tuple)
                prefixes.append(tk if tk is not None else [-1])
        return {"lines": ids, "prefix": prefixes, "title": title}

    k = rotate
    for sname in names + ["list"]:
        style_tuple = None if sname == "list" else all_styles[sname]
        lenonly = False
        if style_tuple is not None and not style_is_decodable(style_tuple):
            # ambiguous segments (space1..space4): all segments have one length, so only the number of segments
            # per line (= depth information) can be recovered
            if len({len(x) for x in style_tuple}) != 1:
                continue
            lenonly = True
        lenonly_holder["v"] = lenonly
        style_arg = sname if sname in CONNECTORS or sname == "list" else style_tuple
        compact = style_tuple is not None and len(style_tuple) == 6
        for title_mode in ("default", "false", "text"):
            join = ["\n", " ;; ", "\r\n"][k % 3]
            rp = [rendering, rendering_str, rendering_blanks][k % 3]
            tail_expected["v"] = "  " if rp is rendering_blanks else ""
            k += 1
            title_arg = {"default": None, "false": False, "text": "My Title"}[title_mode]
            exp_title = {"default": "default" if sname != "list" else "none", "false": "none", "text": "text"}[title_mode]
            lstrip = 0 if exp_title != "none" else 1

            def fn(style_arg=style_arg, title_arg=title_arg, join=join, rp=rp):
                tail_expected["v"] = "  " if rp is rendering_blanks else ""
                return tree.format(repr=rp, style=style_arg, title=title_arg, join=join)

            a = {"start": 0, "self": exp_title != "none", "lstrip": lstrip, "compact": compact, "list": sname == "list",
                 "style": sname, "title": exp_title, "join": join, "lenonly": lenonly}
            out.append({"q": "format", "a": a,
                        "r": call(fn, lambda t, join=join, stt=style_tuple, et=exp_title: parse(t, join, stt, et))})
        for i in range(1, n + 1):
            nd = c.b.nodes[i]
            depth = len(nd.get_parent_list()) + 1
            for self_ in (True, False):
                join = ["\n", " ;; "][k % 2]
                k += 1

                rp2 = rendering_blanks if k % 3 == 0 else rendering
                tail2 = "  " if rp2 is rendering_blanks else ""

                def fn(nd=nd, style_arg=style_arg, self_=self_, join=join, rp2=rp2, tail2=tail2):
                    tail_expected["v"] = tail2
                    return nd.format(repr=rp2, style=style_arg, add_self=self_, join=join)

                a = {"start": i, "self": self_, "lstrip": depth + (0 if self_ else 1), "compact": compact,
                     "list": sname == "list", "style": sname, "title": "none", "join": join, "lenonly": lenonly}
                out.append({"q": "format", "a": a,
                            "r": call(fn, lambda t, join=join, stt=style_tuple: parse(t, join, stt, None))})
    return out


# ------------------------------------------------------------------------------------------------ C08
from nutree.common import SelectBranch  # noqa: E402

FVERD = ["T", "F", "skip", "skipKeep", "select", "stop"]


def _pred(c: Ctx, v, called, form):
    """form: 'ret' (return instances), 'raise' (raise instances), 'cls' (return/raise the classes where possible)"""

    def pred(node):
        i = c.nid(node)
        called.append(i)
        vd = v[i - 1] if 1 <= i <= len(v) else "F"
        if vd == "T":
            return True
        if vd == "F":
            return False if (i % 2 or form == "ret") else None
        if vd == "skip":
            sig, cls = SkipBranch(), SkipBranch
        elif vd == "skipKeep":
            sig, cls = SkipBranch(and_self=False), None
        elif vd == "select":
            sig, cls = SelectBranch(), SelectBranch
        else:
            sig, cls = StopTraversal(), StopTraversal
        if form == "ret":
            return sig
        if form == "raise":
            raise sig
        if form == "cls_ret" and cls is not None:
            return cls
        if form == "cls_raise" and cls is not None:
            raise cls
        if form == "stopiter" and vd == "stop":
            raise StopIteration
        return sig

    return pred


FORMS = ["ret", "raise", "cls_ret", "cls_raise", "stopiter"]


def _forest_of(c: Ctx, new_tree, src_start):
    """map the nodes of a copied (sub-)forest back to source ids: a child of a copy maps to the child of the
    source with the same data_id (siblings are unique).  A leaf copy that maps to no source child but carries the
    same data object and data_id as its own parent copy ("the node once more below itself") is taken out of the
    forest and reported separately in `selfdup` (ids of the parents).
    Returns (nested forest, faithful data/ids, kinds equal, selfdup)"""
    flags = {"faithful": True, "kinds": True}
    selfdup = []

    def kids_of(i):
        return c.st["top"] if i == 0 else c.st["kids"][i - 1]

    def walk(copies, src_parent_ids, parent_copy, parent_id):
        out = []
        for cp in copies:
            cand = [i for i in src_parent_ids if c.b.nodes[i].data_id == cp.data_id]
            if len(cand) != 1:
                if (parent_copy is not None and not cp.children and cp.data is parent_copy.data
                        and cp.data_id == parent_copy.data_id):
                    selfdup.append(parent_id)
                else:
                    out.append([-2, []])
                continue
            i = cand[0]
            s = c.b.nodes[i]
            if cp.data is not s.data or cp is s:
                flags["faithful"] = False
            if c.b.fl.kind_id(cp) != c.b.fl.kind_id(s):   # not getattr: forward_attrs trees forward `kind` to the data
                flags["kinds"] = False
            out.append([i, walk(cp.children, kids_of(i), cp, i)])
        return out

    forest = walk(new_tree.children, src_start, None, 0)
    return forest, flags["faithful"], flags["kinds"], sorted(selfdup)


def obs_c08(c: Ctx, st_builder, *, assignments, form_rotate=0):
    """assignments: iterable of (p, v) with v a list of verdicts (len n)"""
    st = c.st
    out = []
    k = form_rotate
    nested_same_id = any(st["did"][ch - 1] == st["did"][i] for i in range(st["n"]) for ch in st["kids"][i])
    for p, v in assignments:
        form = FORMS[k % len(FORMS)]
        k += 1
        a = {"p": p, "v": list(v), "form": form, "self": True, "via": "inplace"}
        # --- in place, on a fresh tree
        b2 = st_builder()
        c2 = Ctx(b2, st)
        called = []
        pred = _pred(c2, v, called, form)

        def run_inplace(b2=b2, pred=pred, p=p):
            (b2.tree if p == 0 else b2.nodes[p]).filter(pred)
            proj = core.project(b2)["st"]
            return proj

        def norm_inplace(proj, called=called, n=st["n"]):
            if proj["n"] != n:
                raise TypeError("new nodes after filter")
            live = [i for i in range(1, n + 1) if proj["par"][i - 1] != -1]
            return {"live": live, "top": proj["top"], "kids": proj["kids"], "called": list(called)}

        out.append({"q": "filter_inplace", "a": a, "r": call(run_inplace, norm_inplace)})
        # --- copying forms on the shared tree
        variants = [("filtered", True)] if p == 0 else [("filtered", True), ("copy_noself", False)]
        variants.append(("copy", True))
        if nested_same_id:
            # a node with a child of the same data_id: the known "accepted node once more below itself" copy is
            # indistinguishable from that child, so the copying forms cannot be observed unambiguously here
            variants = []
        for via, self_ in variants:
            called2 = []
            pred2 = _pred(c, v, called2, form)
            before = core.project(c.b)["st"]

            def run_copy(via=via, self_=self_, pred2=pred2, p=p):
                src = c.b.tree if p == 0 else c.b.nodes[p]
                if via == "filtered":
                    return src.filtered(pred2)
                if p == 0:
                    return src.copy(predicate=pred2)
                return src.copy(add_self=self_, predicate=pred2)

            def norm_copy(t, called2=called2, before=before, p=p, self_=self_):
                if p == 0 or not self_:
                    start_ids = c.st["top"] if p == 0 else c.st["kids"][p - 1]
                else:
                    start_ids = [p]
                forest, faithful, kinds, selfdup = _forest_of(c, t, start_ids)
                same = core.project(c.b)["st"] == before
                return {"forest": forest, "called": list(called2), "src_same": same, "faithful": faithful,
                        "kinds": kinds, "selfdup": selfdup, "cls": type(t) is type(c.b.tree)}

            a2 = dict(a, via=via, self=self_)
            out.append({"q": "filter_copy", "a": a2, "r": call(run_copy, norm_copy)})
    return out


# ------------------------------------------------------------------------------------------------ C17
import io as _io  # noqa: E402
import re as _re  # noqa: E402

ROOT_KEY = -100


def _dot_parse(lines):
    nodes, edges, section = [], [], None
    for ln in lines:
        if ln.startswith("  # Default Definitions"):
            section = "d"
            continue
        if section == "d" and ln.strip() and not ln.startswith("  # "):
            if not _re.match(r'^\s+(graph|node|edge) ', ln):
                raise TypeError(f"unparsed DOT default line {ln!r}")
            continue
        if ln.startswith("  # Node Definitions"):
            section = "n"
            continue
        if ln.startswith("  # Edge Definitions"):
            section = "e"
            continue
        if not ln.strip() or ln.startswith("#") or ln.startswith("digraph") or ln == "}" or ln.startswith("  # "):
            continue
        m = _re.match(r'^\s+(\S+) -> (\S+)(?: \[(.*)\])?$', ln)
        if section == "e" and m:
            attrs = dict(_re.findall(r'(\w+)="([^"]*)"', m.group(3) or ""))
            edges.append((m.group(1), m.group(2), attrs.get("label")))
            continue
        m = _re.match(r'^\s+(\S+)(?: \[(.*)\])?$', ln)
        if section == "n" and m:
            attrs = dict(_re.findall(r'(\w+)="([^"]*)"', m.group(2) or ""))
            nodes.append((m.group(1), attrs.get("label")))
            continue
        raise TypeError(f"unparsed DOT line {ln!r}")
    return nodes, edges


def obs_c17(c: Ctx):
    st, fl, tree = c.st, c.b.fl, c.b.tree
    n = st["n"]
    out = []
    by_nid = {str(c.b.nodes[i].node_id): i for i in range(1, n + 1)}
    name_to_d = {}
    for d in range(1, 9):
        try:
            name_to_d[str(fl.data(d))] = d
        except IndexError:
            break

    def key_of_token(tok, unique):
        """graph node key token -> model key"""
        if tok in ("__root__", '"__root__"'):
            return ROOT_KEY
        if tok == "0" and not unique:
            return 0
        if unique:
            try:
                real = int(tok)
            except ValueError:
                real = tok.strip('"')
            md = fl.model_did(real)
            if md == -1 and isinstance(real, int) and real == 0:
                return -3
            return md
        return by_nid.get(tok, -2)

    def kind_id(label):
        from .flavours import KIND_IDS
        return 0 if label is None else KIND_IDS.get(label, -1)

    starts = [0] + list(range(1, n + 1))
    for s in starts:
        for unique in (True, False):
            for self_ in (True, False):
                a = {"start": s, "self": self_, "unique": unique, "fmt": "dot", "dup_defs_ok": s != 0 and self_ and unique}

                mstyle = (s + int(unique) + int(self_)) % 3    # user mappers: none / in-place / returning a new dict

                def run_dot(s=s, unique=unique, self_=self_, mstyle=mstyle):
                    kw = {}
                    if mstyle == 1:
                        kw = {"node_mapper": lambda nd, data: data.update(shape="box"),
                              "edge_mapper": lambda nd, data: data.update(color="red")}
                    elif mstyle == 2:
                        kw = {"node_mapper": lambda nd, data: dict(data, shape="box"),
                              "edge_mapper": lambda nd, data: {"color": "red"}}
                    if mstyle == 1:   # default attribute sections
                        kw.update(graph_attrs={"rankdir": "LR"}, node_attrs={"style": "filled"}, edge_attrs={"penwidth": 2})
                    if s == 0:
                        return list(tree.to_dot(add_root=self_, unique_nodes=unique, **kw))
                    return list(c.b.nodes[s].to_dot(add_self=self_, unique_nodes=unique, **kw))

                def norm_dot(lines, unique=unique, s=s, self_=self_):
                    nodes, edges = _dot_parse(lines)
                    names = []
                    for tok, label in nodes:
                        if label is not None and label in name_to_d:
                            names.append([key_of_token(tok, unique), name_to_d[label]])
                    return {"nodes": [key_of_token(t, unique) for t, _ in nodes],
                            "edges": [[key_of_token(p, unique), key_of_token(ch, unique)] for p, ch, _ in edges],
                            "edge_kinds": [[key_of_token(p, unique), key_of_token(ch, unique), kind_id(lb)] for p, ch, lb in edges],
                            "kinds": [], "names": names, "index": []}

                out.append({"q": "export", "a": a, "r": call(run_dot, norm_dot)})
                # --- mermaid
                a2 = dict(a, fmt="mermaid", dup_defs_ok=False)

                str_mappers = unique and (s + int(self_)) % 2 == 1   # mappers given as format strings

                def run_mm(s=s, unique=unique, self_=self_, str_mappers=str_mappers):
                    buf = _io.StringIO()
                    kw = {"node_mapper": (lambda nd: f"#{c.nid(nd)}#")}
                    if str_mappers:
                        kw = {"node_mapper": "#D{node.data_id}#",
                              "edge_mapper": '{from_id}-- "{to_node.kind}" -->{to_id}' if fl.typed else "{from_id} --> {to_id}"}
                    if s == 0:
                        tree.to_mermaid_flowchart(buf, add_root=self_, unique_nodes=unique, **kw)
                    else:
                        c.b.nodes[s].to_mermaid_flowchart(buf, add_self=self_, unique_nodes=unique, **kw)
                    return buf.getvalue()

                def norm_mm(text, unique=unique, s=s, self_=self_):
                    idx_key = {}
                    nodes, names, edges, ek = [], [], [], []
                    sec = None
                    for ln in text.splitlines():
                        if ln.startswith("%% Nodes:"):
                            sec = "n"
                            continue
                        if ln.startswith("%% Edges:"):
                            sec = "e"
                            continue
                        if not ln.strip() or ln.startswith("%%") or ln.startswith("```") or ln.startswith("---") \
                                or ln.startswith("title:") or ln.startswith("flowchart"):
                            continue
                        if sec == "n":
                            m = _re.match(r'^(\d+)\{\{"(.*)"\}\}$', ln)
                            if m:  # the start node (add_root / add_self): rendered with its name
                                key = (ROOT_KEY if unique else 0) if s == 0 else \
                                    (st["did"][s - 1] if unique else s)
                                idx_key[m.group(1)] = key
                                nodes.append(key)
                                if s != 0 and m.group(2) in name_to_d:
                                    names.append([key, name_to_d[m.group(2)]])
                                continue
                            m = _re.match(r'^(\d+)\("#D(.*)#"\)$', ln)
                            if m:   # format-string mapper: the graph node is labelled with its data_id
                                tokd = m.group(2)
                                try:
                                    real = int(tokd)
                                except ValueError:
                                    real = tokd
                                key = fl.model_did(real)
                                idx_key[m.group(1)] = key
                                nodes.append(key)
                                for i2 in range(1, n + 1):
                                    if st["did"][i2 - 1] == key:
                                        names.append([key, st["dat"][i2 - 1]])
                                continue
                            m = _re.match(r'^(\d+)\("#(-?\d+)#"\)$', ln)
                            if m:
                                i = int(m.group(2))
                                key = st["did"][i - 1] if unique else i
                                idx_key[m.group(1)] = key
                                nodes.append(key)
                                names.append([key, st["dat"][i - 1]])  # the mapper rendered node i itself
                                continue
                            raise TypeError(f"unparsed mermaid node {ln!r}")
                        if sec == "e":
                            m = _re.match(r'^(\d+)\s*--\s*"(.*)"\s*-->\s*(\d+)$', ln) or None
                            if m:
                                p_, lb, ch = m.group(1), m.group(2), m.group(3)
                            else:
                                m = _re.match(r'^(\d+)\s*-->\s*(\d+)$', ln)
                                if not m:
                                    raise TypeError(f"unparsed mermaid edge {ln!r}")
                                p_, lb, ch = m.group(1), None, m.group(2)
                            edges.append([idx_key.get(p_, -2), idx_key.get(ch, -2)])
                            ek.append([idx_key.get(p_, -2), idx_key.get(ch, -2), kind_id(lb)])
                    return {"nodes": nodes, "edges": edges, "edge_kinds": ek, "kinds": [], "names": names, "index": []}

                out.append({"q": "export", "a": a2, "r": call(run_mm, norm_mm)})
        # --- RDF (always keyed by data_id)
        for self_ in ((True,) if s == 0 else (True, False)):
            a3 = {"start": s, "self": self_, "unique": True, "fmt": "rdf", "dup_defs_ok": True}

            def run_rdf(s=s, self_=self_):
                if s == 0:
                    return tree.to_rdf_graph()
                return c.b.nodes[s].to_rdf_graph(add_self=self_)

            def norm_rdf(g, s=s):
                from nutree.rdf import NUTREE_NS
                import rdflib

                def key(term):
                    if isinstance(term, rdflib.URIRef):
                        return ROOT_KEY if term == NUTREE_NS.system_root else -2
                    return fl.model_did(term.toPython())

                nodes, edges, kinds, names, index = set(), [], [], [], []
                for sub, pred, obj in g:
                    if pred == NUTREE_NS.index:
                        index.append([key(sub), int(obj.toPython())])
                    nodes.add(key(sub))
                    if pred == NUTREE_NS.has_child:
                        edges.append([key(sub), key(obj)])
                        nodes.add(key(obj))
                    elif pred == NUTREE_NS.kind:
                        kinds.append([key(sub), kind_id(str(obj))])
                    elif pred == NUTREE_NS.name and key(sub) != ROOT_KEY:
                        names.append([key(sub), name_to_d.get(str(obj), -1)])
                return {"nodes": sorted(nodes), "edges": edges, "edge_kinds": [], "kinds": kinds, "names": names, "index": index}

            out.append({"q": "export", "a": a3, "r": call(run_rdf, norm_rdf)})
    return out


# ------------------------------------------------------------------------------------------------ C07 (new-tree copies)
def obs_c07(c: Ctx):
    """Tree.copy(), Node.copy(add_self=), Tree.copy_to / Node.copy_to into a fresh tree (also of a subclass);
    afterwards the copy is mutated and the source must still project to the same state (independence)."""
    st, tree, fl = c.st, c.b.tree, c.b.fl
    n = st["n"]
    out = []

    class SubTree(type(tree)):
        pass

    def observe(make, start_ids, via, p, self_):
        before = core.project(c.b)["st"]

        def norm(t):
            forest, faithful, kinds, selfdup = _forest_of(c, t, start_ids)
            same = core.project(c.b)["st"] == before
            # later changes of the copy are not visible in the source
            indep = True
            try:
                for nd in list(t):
                    nd.set_meta("verif", 1)
                tops = list(t.children)
                if tops:
                    tops[-1].remove()
                t.add(fl.data(8))
                indep = core.project(c.b)["st"] == before and all(nd.meta is None or "verif" not in nd.meta for nd in tree)
            except Exception:  # noqa: BLE001
                indep = False
            # a tree the LIBRARY made for the copy works like the source tree: its nodes are found through their data
            # objects, and data added later gets the id the source tree would give it (id callback / hash)
            like = True
            if via in ("tree.copy", "node.copy", "node.copy(add_self=False)"):
                try:
                    like = all((nd.data in t) and any(x is nd for x in t.find_all(nd.data)) for nd in t
                               if nd.data_id == fl.default_real_did(fl.data_index(nd.data)))    # (not under an explicit id)
                    added = t.find_first(fl.data(8))
                    like = like and added is not None and added.data_id == fl.default_real_did(8)
                except Exception:  # noqa: BLE001
                    like = False
            return {"forest": forest, "faithful": faithful, "kinds": kinds, "selfdup": selfdup, "src_same": same,
                    "cls": isinstance(t, type(tree)), "independent": indep, "like_source": like}
        out.append({"q": "copy", "a": {"p": p, "self": self_, "via": via}, "r": call(make, norm)})

    observe(lambda: tree.copy(), st["top"], "tree.copy", 0, False)

    def new_target(cls=None):
        """a fresh tree configured like the source (id callback, forward_attrs), optionally of a subclass"""
        t2 = fl.new_tree("target")
        if cls is not None and cls is not type(t2):
            t2.__class__ = cls        # (SubTree adds nothing but its name)
        return t2

    def copy_to_new(cls, deep=True):
        t2 = new_target(cls)
        tree.copy_to(t2, deep=deep)
        return t2
    if n > 0:   # (an empty source is refused with ValueError; the documentation is silent)
        observe(lambda: copy_to_new(type(tree)), st["top"], "tree.copy_to", 0, False)
        observe(lambda: copy_to_new(SubTree), st["top"], "tree.copy_to(subclass target)", 0, False)
    for i in range(1, n + 1):
        nd = c.b.nodes[i]
        observe(lambda nd=nd: nd.copy(), [i], "node.copy", i, True)
        if st["kids"][i - 1]:
            observe(lambda nd=nd: nd.copy(add_self=False), st["kids"][i - 1], "node.copy(add_self=False)", i, False)

        def node_copy_to(nd=nd):
            t2 = new_target()
            nd.copy_to(t2, deep=True)
            return t2
        observe(node_copy_to, [i], "node.copy_to(deep)", i, True)
        # copy_to(add_self=False) into a target that already holds a child equal to a DEEPER descendant of the
        # source node (no collision at the level that is copied): must be carried out
        kids = st["kids"][i - 1]
        if kids:
            kid_dids = {st["did"][k - 1] for k in kids}
            deeper = [g for k in kids for g in _desc_ids(st, k) if st["did"][g - 1] not in kid_dids]
            if deeper:
                g = deeper[0]

                def children_into_populated(nd=nd, g=g):
                    t2 = new_target()
                    gn = c.b.nodes[g]
                    kw = {"kind": gn.kind} if fl.typed else {}
                    pre = t2.add(gn.data, data_id=gn.data_id, **kw)
                    nd.copy_to(t2, add_self=False, deep=True)
                    if t2.children[0] is not pre:
                        raise TypeError("existing child of the target moved")
                    pre.remove()
                    return t2
                observe(children_into_populated, kids, "node.copy_to(add_self=False) into populated target", i, False)
    return out


def _desc_ids(st, x):
    out, stack = [], list(st["kids"][x - 1])
    while stack:
        y = stack.pop()
        out.append(y)
        stack.extend(st["kids"][y - 1])
    return out
