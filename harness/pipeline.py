"""The shared pipeline:  TLC explores the spec -> (state, op) pairs -> executed on the real library
-> trace records -> validated by TLC against the spec -> mismatches (tagged per property)."""
from __future__ import annotations

import json
import multiprocessing as mp
import os
import re
import time
from concurrent.futures import ThreadPoolExecutor
from pathlib import Path

from . import core, flavours, trace
from .tlcrun import WORK, TLCError, run_tlc, write_cfg

DEFDID_OP = {"hash": "DefDidHash", "callback": "DefDidCallback"}

SRC_STATE = {
    "n": 3, "par": [0, 1, 0], "kids": [[2], [], []], "top": [1, 3], "dat": [1, 2, 2],
    "knd": [0, 0, 0], "meta": [[0], [0], [0]], "typed": False,
}


def src_state(fl: flavours.Flavour, mk=1, xid=0):
    s = dict(SRC_STATE)
    if fl.model_default_did(1) == fl.model_default_did(2):
        s["dat"] = [1, 3, 3]
    s["did"] = [fl.model_default_did(d) for d in s["dat"]]
    if xid:
        s["did"] = [s["did"][0], xid, xid]
    s["meta"] = [[0] * mk for _ in range(3)]
    if fl.typed:
        s["knd"] = [1, 2, 1]
        s["typed"] = True
    return s


def core_constants(*, max_nodes, d, typed=False, kinds=(0,), xids=(0,), meta_vals=0, meta_keys=1, ops, emit):
    return {
        "MaxNodes": max_nodes, "D": d, "Typed": typed, "Kinds": set(kinds), "Xids": set(xids),
        "MetaVals": meta_vals, "MetaKeys": meta_keys, "OpNames": set(ops), "EmitOn": emit,
    }


CORE_INVARIANTS = ["InvWellFormed", "InvIndexExact", "InvSiblingUnique", "InvBound", "RefusalFrame", "Frame"]


def mc_core(consts, *, defdid="hash", workers=16, tag="mc", simulate=None, depth=None, seed=None, timeout=3600,
            invariants=CORE_INVARIANTS, coverage=False, emit_transitions=True):
    cfg = WORK / "cfg" / f"{tag}-{os.getpid()}-{time.time_ns()}.cfg"
    cfg.parent.mkdir(parents=True, exist_ok=True)
    write_cfg(cfg, constants=consts, subst={"DefDid": DEFDID_OP[defdid]}, view="View", invariants=invariants,
              action_constraints=["Emit"] if emit_transitions else [])
    try:
        return run_tlc("MC_Core.tla", cfg, workers=workers, tag=tag, simulate=simulate, depth=depth, seed=seed,
                       timeout=timeout, coverage=coverage)
    finally:
        cfg.unlink(missing_ok=True)


# ------------------------------------------------------------------------------------------------
_G = {}


def _init_worker():
    _G.clear()


def _fl(name):
    if name not in _G:
        base, typed = name.split("+")[0], name.endswith("+typed")
        _G[name] = flavours.make(base, typed)
    return _G[name]


def _exec_chunk(args):
    chunk, flname, mk, maxd, use_src, src_xid = args
    fl = _fl(flname)
    out = []
    for rid, pre, op in chunk:
        if not core.op_applicable(op, fl):
            continue
        try:
            try:
                b = core.build(pre, fl, mk)
            except Exception as e:  # noqa: BLE001
                # a state the specification reaches by plain add_child calls could not be built with those calls
                out.append({"id": rid, "fl": flname, "build_failed": f"{type(e).__name__}: {e}", "op": op, "pre": pre})
                continue
            src = None
            if use_src or op.get("src") == "S" or op["name"] in ("add_tree", "tree_copy_to"):
                try:
                    src = core.build(src_state(fl, mk, src_xid), fl, mk, name="src")
                except Exception as e:  # noqa: BLE001   the source tree is a specification state as well
                    out.append({"id": rid, "fl": flname, "build_failed": f"source tree: {type(e).__name__}: {e}", "op": op,
                                "pre": src_state(fl, mk, src_xid)})
                    continue
            pre_st = core.norm_state(pre)
            pre_st = {k: pre_st[k] for k in ("n", "par", "kids", "top", "dat", "did", "knd", "meta", "typed")}
            if core.project(b)["st"] != pre_st:
                out.append({"id": rid, "fl": flname, "build_failed": "Differs: the tree built by add_child calls is not "
                            "the requested state", "op": op, "pre": pre})
                continue
            rec = trace.run_step(b, op, rid, src, maxd, pre_st=pre_st)
        except Exception as e:  # noqa: BLE001   harness failure, reported as such
            rec = {"id": rid, "harness_error": f"{type(e).__name__}: {e}", "op": op, "pre": pre}
        out.append(rec)
    return out


def execute_pairs(pairs, flname, *, mk=1, maxd=4, procs=16, chunk=400, use_src=False, src_xid=0):
    """pairs: list of (rid, pre, op).  Returns list of trace records."""
    chunks = [(pairs[i:i + chunk], flname, mk, maxd, use_src, src_xid) for i in range(0, len(pairs), chunk)]
    if procs <= 1 or len(chunks) <= 1:
        res = [_exec_chunk(c) for c in chunks]
    else:
        import gc
        gc.freeze()      # the forked workers inherit the caller's heap: keep their collector from touching (= copying) it
        try:
            with mp.get_context("fork").Pool(min(procs, len(chunks)), initializer=_init_worker) as pool:
                res = pool.map(_exec_chunk, chunks)
        finally:
            gc.unfreeze()
    return [r for ch in res for r in ch]


# ------------------------------------------------------------------------------------------------
_MM = re.compile(r'<<\s*"MISMATCH",\s*(-?\d+),\s*"([^"]*)",\s*"((?:[^"\\]|\\.)*)",\s*"((?:[^"\\]|\\.)*)"\s*>>')
_CK = re.compile(r'<<\s*"CHECKED",\s*(\d+)\s*>>')


def validate_records(records, *, defdid="hash", mk=1, module="TraceCore.tla", shards=16, tag="val", timeout=1800,
                     extra_consts=None, nutree_consts=True):
    """Run TLC on the records (sharded over several JVMs).  Returns (mismatches, checked, wall)."""
    good = [r for r in records if "harness_error" not in r and "build_failed" not in r]
    herr = [r for r in records if "harness_error" in r]
    if herr:
        raise TLCError(f"harness error while executing: {herr[0]['harness_error']} op={herr[0]['op']}")
    if not good:
        return [], 0, 0.0
    shards = max(1, min(shards, (len(good) + 199) // 200))
    d = WORK / "traces"
    d.mkdir(parents=True, exist_ok=True)
    uniq = f"{tag}-{os.getpid()}-{time.time_ns()}"
    # keep every shard small enough for TLC's JSON reader (one JVM per shard, 16 at a time)
    texts = [json.dumps(r) for r in good]
    total = sum(len(t) for t in texts)
    shards = max(shards, -(-total // 25_000_000))
    files = []
    for k in range(shards):
        p = d / f"{uniq}-{k}.json"
        with open(p, "w") as f:
            f.write("[" + ",".join(texts[k::shards]) + "]")
        files.append(p)
    del texts
    cfg = WORK / "cfg" / f"{uniq}.cfg"
    cfg.parent.mkdir(parents=True, exist_ok=True)
    consts = {"MetaKeys": mk} if nutree_consts else {}
    consts.update(extra_consts or {})
    write_cfg(cfg, init="Init", next_="Next", constants=consts,
              subst={"DefDid": DEFDID_OP[defdid]} if nutree_consts else None)
    t0 = time.time()

    def one(p):
        return run_tlc(module, cfg, workers=1, tag=tag, env={"TRACE_FILE": str(p)}, timeout=timeout, heap="3g")

    mism, checked = [], 0
    try:
        with ThreadPoolExecutor(max_workers=16) as ex:
            results = list(ex.map(one, files))
        for p, r in zip(files, results):
            txt = r.out
            ck = _CK.search(txt)
            if not ck or r.errors:
                raise TLCError(f"trace validation did not complete for {p}: {r.errors[:3]} {r.tail[-15:]}")
            checked += int(ck.group(1))
            flat = " ".join(txt.split())
            found = 0
            for m in _MM.finditer(flat):
                found += 1
                mism.append({"id": int(m.group(1)), "property": m.group(2), "clause": m.group(3), "why": m.group(4)})
            if found != flat.count('"MISMATCH"'):
                raise TLCError(f"could not parse every MISMATCH line of {p} ({found} of {flat.count('MISMATCH')})")
            r.cleanup()
    finally:
        cfg.unlink(missing_ok=True)
        for p in files:
            p.unlink(missing_ok=True)
    return mism, checked, time.time() - t0


def mc_shapes(*, max_nodes, k=0, emit=True, workers=1, tag="shapes", timeout=3600,
              invariants=("InvIter", "InvVisit", "InvRel", "InvTyped", "InvPrefix")):
    cfg = WORK / "cfg" / f"{tag}-{os.getpid()}-{time.time_ns()}.cfg"
    cfg.parent.mkdir(parents=True, exist_ok=True)
    write_cfg(cfg, constants={"MaxNodes": max_nodes, "K": k, "EmitOn": emit, "MetaKeys": 1},
              subst={"DefDid": "DefDidHash"}, invariants=list(invariants) + ["EmitState"])
    try:
        return run_tlc("MC_Shapes.tla", cfg, workers=workers, tag=tag, timeout=timeout)
    finally:
        cfg.unlink(missing_ok=True)


def core_states(consts, *, defdid="hash", tag="states", timeout=3600):
    """every distinct (canonical) labelled state of MC_Core within the bound"""
    c = dict(consts)
    c["EmitOn"] = False
    res = mc_core(c, defdid=defdid, workers=1, tag=tag, timeout=timeout, emit_transitions=False,
                  invariants=["InvWellFormed", "InvIndexExact", "InvSiblingUnique", "EmitStateInv"])
    return res


def serial_states(consts, *, defdid="hash", tag="serial", timeout=3600, all_states=False):
    """MC_Serial: serialisation laws on every state; every serialisable state (all_states: every state) printed with
    Encode(S)"""
    c = dict(consts)
    c["EmitOn"] = False
    cfg = WORK / "cfg" / f"{tag}-{os.getpid()}-{time.time_ns()}.cfg"
    cfg.parent.mkdir(parents=True, exist_ok=True)
    write_cfg(cfg, constants=c, subst={"DefDid": DEFDID_OP[defdid]}, view="View",
              invariants=["InvWellFormed", "InvSiblingUnique", "InvEncode", "InvDictList",
                          "EmitAllInv" if all_states else "EmitSerialInv"])
    try:
        return run_tlc("MC_Serial.tla", cfg, workers=1, tag=tag, timeout=timeout)
    finally:
        cfg.unlink(missing_ok=True)
