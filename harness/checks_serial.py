"""Checks C05 (save/load round trip), C12 (documented file layout, both ways), C14 (list-of-dicts form)."""
from __future__ import annotations

import json
import multiprocessing as mp
import shutil
import sys
import tempfile
import time

from . import core, flavours, pipeline as P, serial as SER
from .findings import Report, env_seed
from .queries import Ctx


def _battery(args):
    prop, items, flname, quick, base = args
    fl = flavours.make(flname.split("+")[0], flname.endswith("+typed"))
    tmpdir = tempfile.mkdtemp(prefix="nutree-verif-")
    out = []
    try:
        for k, (st, enc) in enumerate(items):
            st = core.norm_state(st)
            st = {x: st[x] for x in ("n", "par", "kids", "top", "dat", "did", "knd", "meta", "typed")}
            b = core.build(st, fl)
            c = Ctx(b, st)
            obs = SER.obs_serial(c, core.seq(enc), props={prop}, quick=quick, salt=base + k, tmpdir=tmpdir)
            out.append({"id": base + k, "fl": flname, "st": st, "obs": obs})
    finally:
        shutil.rmtree(tmpdir, ignore_errors=True)
    return out


def run_items(rep, prop, items, flname, quick, label):
    t0 = time.time()
    chunks = [items[i::32] for i in range(32) if items[i::32]]
    jobs, base = [], 0
    for ch in chunks:
        jobs.append((prop, ch, flname, quick, base))
        base += len(ch)
    with mp.get_context("fork").Pool(16) as pool:
        outs = pool.map(_battery, jobs)
    recs = [r for o in outs for r in o if r["obs"]]
    nobs = sum(len(r["obs"]) for r in recs)
    mism, checked, wall = P.validate_records(recs, module="TraceSerial.tla", tag="ser", shards=16)
    if checked != nobs:
        raise P.TLCError(f"{label}: validated {checked} of {nobs} observations")
    byid = {r["id"]: r for r in recs}
    rep.validated += nobs
    rep.evaluations += nobs
    for r in recs:
        for o in r["obs"]:
            rep.nontrivial.add(hash((flname, json.dumps(r["st"]["kids"]), json.dumps(r["st"]["did"]),
                                     json.dumps(r["st"]["knd"]), o["q"], json.dumps(o["a"], sort_keys=True))))
    if recs:
        r = recs[len(recs) // 2]
        rep.add_sample({"fl": flname, "st": {k: r["st"][k] for k in ("top", "kids", "dat", "did", "knd")},
                        "obs": [{"q": o["q"], "a": o["a"], "status": o["r"]["s"]} for o in r["obs"][:3]]})
    for m in mism:
        if m["property"] != prop:
            continue
        rec = byid.get(m["id"])
        rep.mismatch(m, {"fl": rec["fl"], "st": rec["st"], "args": m["why"]} if rec else None)
    rep.stages.append({"stage": f"{label}:{flname}", "states": len(items), "observations": nobs,
                       "wall_s": round(time.time() - t0, 1)})


UG_PLAIN = """{"meta": {"$generator": "nutree/0.5.1", "$format_version": "1.0", "foo": "bar"},
 "nodes": [[0, "A"], [1, "a1"], [2, "a11"], [2, "a12"], [1, "a2"], [0, "B"], [6, 3], [6, "b1"], [8, "b11"]]}"""
UG_PLAIN_ST = {"n": 9, "par": [0, 1, 2, 2, 1, 0, 6, 6, 8], "kids": [[2, 5], [3, 4], [], [], [], [7, 8], [], [9], []],
               "top": [1, 6], "dat": [1, 2, 3, 4, 5, 6, 3, 7, 8], "knd": [0] * 9, "meta": [[0]] * 9, "typed": False}
UG_OBJ_NODES = {
    "ug_objects": ("{}", """[[0, {"type": "dept", "name": "Development"}], [1, {"type": "person", "name": "Alice", "age": 23, "guid": "{123-456}"}],
        [1, {"type": "person", "name": "Bob", "age": 32, "guid": "{234-456}"}], [1, {"type": "person", "name": "Charleen", "age": 43, "guid": "{345-456}"}],
        [0, {"type": "dept", "name": "Marketing"}], [5, 4], [5, {"type": "person", "name": "Dave", "age": 54, "guid": "{456-456}"}]]"""),
    "ug_keymap": ("""{"$key_map": {"type": "t", "name": "n", "age": "a", "guid": "g"}}""",
        """[[0, {"t": "dept", "n": "Development"}], [1, {"t": "person", "n": "Alice", "a": 23, "g": "{123-456}"}],
        [1, {"t": "person", "n": "Bob", "a": 32, "g": "{234-456}"}], [1, {"t": "person", "n": "Charleen", "a": 43, "g": "{345-456}"}],
        [0, {"t": "dept", "n": "Marketing"}], [5, 4], [5, {"t": "person", "n": "Dave", "a": 54, "g": "{456-456}"}]]"""),
    "ug_valuemap": ("""{"$key_map": {"type": "t", "name": "n", "age": "a", "guid": "g"}, "$value_map": {"type": ["dept", "person"]}}""",
        """[[0, {"t": 0, "n": "Development"}], [1, {"t": 1, "n": "Alice", "a": 23, "g": "{123-456}"}],
        [1, {"t": 1, "n": "Bob", "a": 32, "g": "{234-456}"}], [1, {"t": 1, "n": "Charleen", "a": 43, "g": "{345-456}"}],
        [0, {"t": 0, "n": "Marketing"}], [5, 4], [5, {"t": 1, "n": "Dave", "a": 54, "g": "{456-456}"}]]"""),
}
UG_OBJ_ST = {"n": 7, "par": [0, 1, 1, 1, 0, 5, 5], "kids": [[2, 3, 4], [], [], [], [6, 7], [], []], "top": [1, 5],
             "dat": [9, 10, 11, 12, 13, 12, 14], "knd": [0] * 7, "meta": [[0]] * 7, "typed": False}


def doc_examples(rep, prop):
    """reading side: the literal documents of docs/sphinx/ug_serialize.rst must load into the tree they describe"""
    import io
    from nutree import Tree
    fl = flavours.make("doc")
    recs = []
    for k, (name, st, text, mapper) in enumerate(
            [("ug_plain", UG_PLAIN_ST, UG_PLAIN, None)] +
            [(nm, UG_OBJ_ST, '{"meta": %s, "nodes": %s}' % (
                json.dumps(dict(json.loads(hdr), **{"$generator": "nutree/0.7.0", "$format_version": "1.0"})), nodes),
              (lambda parent, data: f"{data['type']}:{data['name']}")) for nm, (hdr, nodes) in UG_OBJ_NODES.items()]):
        st = dict(st, did=[fl.model_default_did(d) for d in st["dat"]])
        kw = {"mapper": mapper} if mapper else {}
        from .queries import call
        r = call(lambda text=text, kw=kw: Tree.load(io.StringIO(text), **kw), lambda t: {"canon": SER.canon_of(t, fl)})
        recs.append({"id": 900000 + k, "fl": "doc", "st": st, "obs": [{"q": "load_ext", "a": {"doc": name, "expect": "ok"}, "r": r}]})
    mism, checked, _ = P.validate_records(recs, module="TraceSerial.tla", tag="doc", shards=1)
    rep.validated += checked
    rep.evaluations += checked
    for m in mism:
        if m["property"] == prop:
            rep.mismatch(m, {"fl": "doc", "args": m["why"]})
    rep.stages.append({"stage": "user-guide documents", "documents": len(recs)})


def states(rep, label, all_states=False, **kw):
    res = P.serial_states(P.core_constants(ops=["add", "add_node"], emit=False, **kw), all_states=all_states)
    if not res.ok:
        raise P.TLCError(f"{label}: TLC found a serialisation law violated on the spec: {res.errors[:3]} {res.tail[-8:]}")
    rep.add_mc(res, label)
    items = [(r["state"], r["enc"]) for r in res.json_lines() if "enc" in r]
    res.cleanup()
    return items


def dup_routes_stage(rep, quick):
    """C03: the 'loading a file' and from_dict routes"""
    plain = states(rep, "dup-routes:plain<=3", max_nodes=3, d=2)
    run_items(rep, "C03", plain, "str", quick, "dup-routes")
    typed = states(rep, "dup-routes:typed<=2", max_nodes=2 if quick else 3, d=2, typed=True, kinds=(0, 2))
    run_items(rep, "C03", typed, "str+typed", quick, "dup-routes-typed")
    run_items(rep, "C03", plain if not quick else plain[::2], "dataclass", quick, "dup-routes-objects")


def run(prop: str, tier: str) -> int:
    seed = env_seed()
    rep = Report(prop, tier, seed)
    rep.dedupe_on_why = False
    quick = tier == "quick"
    rep.exhaustive = True
    rep.rule = ("TLC enumerates every labelled forest in the bound (clones at every relative position, kinds, explicit "
                "ids), checks Decode(Encode(S)) = Canon(S) / FromDict(ToDictList(S)) = Canon(S) on the spec and prints "
                "Encode(S); the harness saves/loads each state under the option grid, decodes written files with the "
                "maps their header declares, and loads documents rendered by an independent encoder from Encode(S); "
                "TLC (TraceSerial) compares. distinct = (flavour, state, observation kind, options).")
    rep.assumptions = ["zip/bz2/lzma and UTF-8 codecs are exercised, not verified",
                       "states in which one data object carries two data_ids (or one data_id two data objects) are not "
                       "serialised: a clone reference stores neither data nor id of the repeated occurrence",
                       "quick tier samples the option grid (rotating), thorough runs the full grid"]
    plain = states(rep, "plain<=%d" % (3 if quick else 4), max_nodes=3 if quick else 4, d=2 if quick else 3)
    ids = states(rep, "ids<=3", max_nodes=3, d=2, xids=(0, 11))
    typed = states(rep, "typed<=3", max_nodes=3, d=2, typed=True, kinds=(0, 2))
    typed_ids = states(rep, "typed+ids<=2", max_nodes=2 if quick else 3, d=2, typed=True, kinds=(0, 2), xids=(0, 11))
    if prop == "C14":
        run_items(rep, prop, plain, "str", quick, "c14")
        run_items(rep, prop, plain, "dataclass", quick, "c14-objects")
        # the dict-list form carries every node's own data: clone groups holding different data objects included
        ids = states(rep, "ids<=3 (all states)", all_states=True, max_nodes=3, d=2, xids=(0, 11))
        run_items(rep, prop, ids, "str", quick, "c14-ids")
        run_items(rep, prop, ids, "str0", quick, "c14-falsy-ids")          # explicit ids 0 and ""
        run_items(rep, prop, ids, "dataclass", quick, "c14-ids-objects")   # incl. mapper pairs that relocate the id
        run_items(rep, prop, plain if not quick else plain[::3], "ustr", quick, "c14-unicode")
        run_items(rep, prop, plain if not quick else plain[::2], "unhash", quick, "c14-unhashable")
        run_items(rep, prop, plain if not quick else plain[1::2], "factory", quick, "c14-node-factory")   # Tree(factory=...)
    else:
        if prop == "C12":
            doc_examples(rep, prop)
        run_items(rep, prop, plain, "str", quick, "plain")
        run_items(rep, prop, plain if not quick else plain[::2], "dataclass", quick, "objects")
        run_items(rep, prop, ids, "str", quick, "ids")
        run_items(rep, prop, typed, "str+typed", quick, "typed")
        run_items(rep, prop, typed_ids, "str+typed", quick, "typed-ids")
        run_items(rep, prop, typed_ids if not quick else typed_ids[::2], "dataclass+typed", quick, "typed-ids-objects")
        run_items(rep, prop, typed if not quick else typed[::3], "dataclass+typed", quick, "typed-objects")
        run_items(rep, prop, plain if not quick else plain[::3], "ustr", quick, "unicode")
        # DictWrapper data with the library's own mapper pair (maps that name keys of the user's dicts)
        run_items(rep, prop, plain if not quick else plain[1::2], "dwrap", quick, "dictwrapper")
        # strings and objects in one tree, strict deserialiser: bare strings must not reach the mapper
        run_items(rep, prop, plain if not quick else plain[1::2], "mixed", quick, "mixed")
        # plain dicts (unhashable) identified by an id callback: every entry carries its data_id
        run_items(rep, prop, plain if not quick else plain[::2], "unhash", quick, "unhashable")
        if prop == "C05":
            # ... which keeps neither a node's explicit data_id nor its kind (open findings KF-dictwrapper-mapper-*)
            run_items(rep, prop, ids if not quick else ids[::3], "dwrapx", quick, "dictwrapper-ids")
            run_items(rep, prop, typed if not quick else typed[::3], "dwrap+typed", quick, "dictwrapper-typed")
            # a tree with an id callback: the ids are not hash(data) and must come back from the file
            run_items(rep, prop, plain if not quick else plain[2::3], "strcb", quick, "id-callback")
        # falsy data objects (the empty string) rebuilt by the mappers
        run_items(rep, prop, plain if not quick else plain[1::3], "estr", quick, "empty-string")
        run_items(rep, prop, typed if not quick else typed[1::3], "estr+typed", quick, "typed-empty-string")
    return rep.finish()


if __name__ == "__main__":
    sys.exit(run(sys.argv[1], sys.argv[2] if len(sys.argv) > 2 else "quick"))
