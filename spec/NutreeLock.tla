----------------------------- MODULE NutreeLock -----------------------------
(***************************************************************************)
(* C18: the tree lock protocol.                                            *)
(* Writers mutate only inside `with tree:` (a critical section of two      *)
(* mutations, optionally with a nested re-entrant `with tree:` in which a  *)
(* snapshot operation is called).  Readers run a snapshot operation        *)
(* (save / copy / filtered / copy_to / to_dict_list / to_dotfile /         *)
(* `with tree:`), which must be  Start . TryAcquire . Acquire . Read .     *)
(* Read . Release . End.                                                   *)
(* ver counts mutations: inside a critical section it is odd (uncommitted).*)
(* hist records the schedule; complete schedules are printed (EmitHist) so *)
(* that the harness can force them on real threads.                        *)
(***************************************************************************)
EXTENDS Naturals, Sequences, FiniteSets, TLC, Json

CONSTANTS Writers, Readers,      \* disjoint sets of thread ids (strings)
          Nested,                \* BOOLEAN: writers nest `with tree:` and take a snapshot inside
          LockedReaders,         \* set of readers whose operation takes the lock (the property: all of them)
          EmitOn

VARIABLES owner, cnt, ver, pc, snap, seen, hist
vars == <<owner, cnt, ver, pc, snap, seen, hist>>
Threads == Writers \cup Readers
None == "none"

Init == /\ owner = None /\ cnt = 0 /\ ver = 0
        /\ pc = [t \in Threads |-> IF t \in Writers THEN "w_try" ELSE "r_start"]
        /\ snap = [t \in Threads |-> <<>>]
        /\ seen = [t \in Threads |-> <<>>]        \* versions read inside the writer's nested snapshot
        /\ hist = <<>>

CanAcquire(t) == owner = None \/ owner = t
Acquire(t) == /\ CanAcquire(t) /\ owner' = t /\ cnt' = cnt + 1
Release(t) == /\ owner = t /\ cnt' = cnt - 1 /\ owner' = IF cnt = 1 THEN None ELSE t
Goto(t, l) == pc' = [pc EXCEPT ![t] = l]
Log(t, a) == hist' = Append(hist, <<t, a>>)

W(t) ==
  \/ /\ pc[t] = "w_try"    /\ Goto(t, "w_acq") /\ Log(t, "try") /\ UNCHANGED <<owner, cnt, ver, snap, seen>>
  \/ /\ pc[t] = "w_acq"    /\ Acquire(t) /\ Goto(t, "w_m1") /\ Log(t, "acq") /\ UNCHANGED <<ver, snap, seen>>
  \/ /\ pc[t] = "w_m1"     /\ ver' = ver + 1 /\ Goto(t, IF Nested THEN "w_ntry" ELSE "w_m2") /\ Log(t, "mut")
                           /\ UNCHANGED <<owner, cnt, snap, seen>>
  \/ /\ pc[t] = "w_ntry"   /\ Goto(t, "w_nacq") /\ Log(t, "try") /\ UNCHANGED <<owner, cnt, ver, snap, seen>>
  \/ /\ pc[t] = "w_nacq"   /\ Acquire(t) /\ Goto(t, "w_nread") /\ Log(t, "acq") /\ UNCHANGED <<ver, snap, seen>>   \* re-entrant
  \/ /\ pc[t] = "w_nread"  /\ seen' = [seen EXCEPT ![t] = Append(@, ver)] /\ Goto(t, "w_nrel") /\ Log(t, "read")
                           /\ UNCHANGED <<owner, cnt, ver, snap>>
  \/ /\ pc[t] = "w_nrel"   /\ Release(t) /\ Goto(t, "w_m2") /\ Log(t, "rel") /\ UNCHANGED <<ver, snap, seen>>
  \/ /\ pc[t] = "w_m2"     /\ ver' = ver + 1 /\ Goto(t, "w_rel") /\ Log(t, "mut") /\ UNCHANGED <<owner, cnt, snap, seen>>
  \/ /\ pc[t] = "w_rel"    /\ Release(t) /\ Goto(t, "done") /\ Log(t, "rel") /\ UNCHANGED <<ver, snap, seen>>

R(t) ==
  \/ /\ pc[t] = "r_start" /\ Goto(t, IF t \in LockedReaders THEN "r_try" ELSE "r_rd1") /\ Log(t, "start")
                          /\ UNCHANGED <<owner, cnt, ver, snap, seen>>
  \/ /\ pc[t] = "r_try"   /\ Goto(t, "r_acq") /\ Log(t, "try") /\ UNCHANGED <<owner, cnt, ver, snap, seen>>
  \/ /\ pc[t] = "r_acq"   /\ Acquire(t) /\ Goto(t, "r_rd1") /\ Log(t, "acq") /\ UNCHANGED <<ver, snap, seen>>
  \/ /\ pc[t] = "r_rd1"   /\ snap' = [snap EXCEPT ![t] = Append(@, ver)] /\ Goto(t, "r_rd2") /\ Log(t, "read")
                          /\ UNCHANGED <<owner, cnt, ver, seen>>
  \/ /\ pc[t] = "r_rd2"   /\ snap' = [snap EXCEPT ![t] = Append(@, ver)] /\ Log(t, "read")
                          /\ Goto(t, IF t \in LockedReaders THEN "r_rel" ELSE "r_end") /\ UNCHANGED <<owner, cnt, ver, seen>>
  \/ /\ pc[t] = "r_rel"   /\ Release(t) /\ Goto(t, "r_end") /\ Log(t, "rel") /\ UNCHANGED <<ver, snap, seen>>
  \/ /\ pc[t] = "r_end"   /\ Goto(t, "done") /\ Log(t, "end") /\ UNCHANGED <<owner, cnt, ver, snap, seen>>

AllDone == \A t \in Threads : pc[t] = "done"
Next == (\E t \in Writers : W(t)) \/ (\E t \in Readers : R(t)) \/ (AllDone /\ UNCHANGED vars)
Spec == Init /\ [][Next]_vars /\ \A t \in Threads : WF_vars(W(t)) /\ WF_vars(R(t))

----------------------------------------------------------------------------
Committed(v) == v % 2 = 0
LockSane == (owner = None) = (cnt = 0)
(* a snapshot operation observes a state between two critical sections *)
SnapshotCommitted == \A t \in Readers : pc[t] = "done" =>
                        /\ Len(snap[t]) = 2 /\ snap[t][1] = snap[t][2] /\ Committed(snap[t][1])
(* no read of the tree by a reader while it does not own the lock *)
NoForeignRead == [][\A t \in Readers : (pc[t] \in {"r_rd1", "r_rd2"} /\ pc'[t] # pc[t]) => owner = t]_vars
(* mutations only inside the critical section *)
MutateOwned == [][\A t \in Writers : (pc[t] \in {"w_m1", "w_m2"} /\ pc'[t] # pc[t]) => owner = t]_vars
(* re-entrancy: the nested snapshot of the owner sees its own uncommitted state and never blocks *)
NestedSeesOwn == \A t \in Writers : pc[t] = "done" /\ Nested => Len(seen[t]) = 1 /\ ~Committed(seen[t][1])
NoDeadlock == AllDone \/ ENABLED Next
Termination == <>AllDone

EmitHist == (EmitOn /\ AllDone) => PrintT(ToJson([hist |-> hist]))
(* without hist the state space is the protocol's; with it, one state per schedule prefix *)
ViewNoHist == <<owner, cnt, ver, pc, snap, seen>>
=============================================================================
