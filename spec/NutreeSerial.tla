---------------------------- MODULE NutreeSerial ----------------------------
(***************************************************************************)
(* Serialised forms of a tree state (C05, C12, C14):                       *)
(*  - Encode(S): the native file layout - node list in pre-order, each     *)
(*    entry naming its parent by the 1-based position of an earlier entry  *)
(*    (0 = root); a repeated occurrence of a clone whose kind equals the   *)
(*    kind of the first occurrence is only that occurrence's position.     *)
(*  - Decode(L): replay of add_child per entry (what load() must build).   *)
(*  - ToDictList(S) / FromDict: the nested list-of-dicts form.             *)
(* Canon(S): nested <<dat, did, knd, children>> from the root: the         *)
(* observable content up to node identity.                                 *)
(* Only states in which the nodes of one clone group (same data_id) hold   *)
(* the same data object (SerialOK) are meaningful for serialisation: a     *)
(* reference stores neither the data nor the id of the repeated occurrence.*)
(* One data object under several data_ids is fine: those are not clones.   *)
(***************************************************************************)
EXTENDS Nutree

SerialOK(S) == \A i, j \in Reach(S) : (S.did[i] = S.did[j]) => (S.dat[i] = S.dat[j])

RECURSIVE CanonSeq(_, _)
CanonSeq(S, seq) == [i \in 1..Len(seq) |-> <<S.dat[seq[i]], S.did[seq[i]], S.knd[seq[i]], CanonSeq(S, S.kids[seq[i]])>>]
Canon(S) == CanonSeq(S, S.top)

PosIn(s, x) == CHOOSE i \in 1..Len(s) : s[i] = x

(* xid = 0 when the node's data_id is the default one of its data *)
XidOf(S, i) == IF S.did[i] = DefDid(S.dat[i]) THEN 0 ELSE S.did[i]

Encode(S) ==
   LET s == Pre(S, 0) IN
   [i \in 1..Len(s) |->
      LET n == s[i]
          earlier == {j \in 1..(i - 1) : S.did[s[j]] = S.did[n]}
          first == IF earlier = {} THEN 0 ELSE Min(earlier)
      IN [pp  |-> IF S.par[n] = 0 THEN 0 ELSE PosIn(s, S.par[n]),
          ref |-> IF first # 0 /\ S.knd[s[first]] = S.knd[n] THEN first ELSE 0,
          d   |-> S.dat[n], xid |-> XidOf(S, n), k |-> S.knd[n]]]

(* what an entry means, resolving references *)
EntryD(L, i) == IF L[i].ref # 0 THEN L[L[i].ref].d ELSE L[i].d
EntryX(L, i) == IF L[i].ref # 0 THEN L[L[i].ref].xid ELSE L[i].xid
EntryK(L, i) == IF L[i].ref # 0 THEN L[L[i].ref].k ELSE L[i].k
EntryDid(L, i) == IF EntryX(L, i) = 0 THEN DefDid(EntryD(L, i)) ELSE EntryX(L, i)
RECURSIVE DecodeCanon(_, _)
DecodeCanon(L, q) ==
   LET ch == SelectSeq([i \in 1..Len(L) |-> i], LAMBDA i : L[i].pp = q) IN
   [c \in 1..Len(ch) |-> <<EntryD(L, ch[c]), EntryDid(L, ch[c]), EntryK(L, ch[c]), DecodeCanon(L, ch[c])>>]
Decode(L) == DecodeCanon(L, 0)
WellFormedList(L) == \A i \in 1..Len(L) : /\ L[i].pp \in 0..(i - 1)
                                          /\ L[i].ref \in 0..(i - 1)
                                          /\ (L[i].ref # 0 => L[L[i].ref].ref = 0)
(* a document is loadable without uniqueness conflicts iff its decoded tree has unique sibling ids *)
RECURSIVE CanonUnique(_)
CanonUnique(c) == /\ NoDup([i \in 1..Len(c) |-> c[i][2]])
                  /\ \A i \in 1..Len(c) : CanonUnique(c[i][4])

LawEncode(S) == SerialOK(S) =>
   LET L == Encode(S) IN
   /\ WellFormedList(L)
   /\ Len(L) = Cardinality(Reach(S))
   /\ Decode(L) = Canon(S)                         \* C05: round trip
   /\ \A i \in 1..Len(L) : L[i].ref # 0 => EntryDid(L, i) = EntryDid(L, L[i].ref)

(* nested list-of-dicts form: <<d, xid, children>> *)
RECURSIVE DictSeq(_, _)
DictSeq(S, seq) == [i \in 1..Len(seq) |-> <<S.dat[seq[i]], XidOf(S, seq[i]), DictSeq(S, S.kids[seq[i]])>>]
ToDictList(S) == DictSeq(S, S.top)
RECURSIVE FromDictCanon(_)
FromDictCanon(L) == [i \in 1..Len(L) |->
   <<L[i][1], IF L[i][2] = 0 THEN DefDid(L[i][1]) ELSE L[i][2], 0, FromDictCanon(L[i][3])>>]
RECURSIVE DropKinds(_)
DropKinds(c) == [i \in 1..Len(c) |-> <<c[i][1], c[i][2], 0, DropKinds(c[i][4])>>]
LawDictList(S) == FromDictCanon(ToDictList(S)) = DropKinds(Canon(S))      \* C14: round trip
=============================================================================
