----------------------------- MODULE TraceLock -----------------------------
(***************************************************************************)
(* code -> spec for C18: validate event traces recorded from real threads  *)
(* against the lock protocol of NutreeLock.  A trace is a sequence of      *)
(* events [t, a, v] ordered by a sequence number taken under the           *)
(* recorder's mutex while the tree lock is held (acq logged after the      *)
(* acquisition, rel before the release):                                   *)
(*   start/end   a snapshot operation of reader t begins / has returned    *)
(*   try/acq/rel lock protocol steps seen by the delegating lock wrapper   *)
(*   mut         a writer mutation (v = new version)                       *)
(*   read        a user callback of the operation ran (it reads the tree)  *)
(*   snap        v = the version the returned snapshot shows               *)
(*   nsnap       v = version shown by a snapshot taken by the lock owner   *)
(*   uses        first acquire of t on lock object number v of this run    *)
(*   newlock     a lock object was created by a thread of the run          *)
(*   deviation / not_reentrant / timeout   reported by the scheduler       *)
(* Each event must be enabled in the protocol state reached so far.        *)
(***************************************************************************)
EXTENDS Naturals, Sequences, FiniteSets, TLC, Json, IOUtils, SequencesExt

VARIABLE dummy
Traces == JsonDeserialize(IOEnv.TRACE_FILE)
None == "none"

Committed(v) == v % 2 = 0
Say(cond, id, clause, why) == cond \/ PrintT(<<"MISMATCH", id, "C18", clause, why>>)

(* protocol state while folding over the events *)
Init0(threads) == [owner |-> None, cnt |-> 0, ver |-> 0,
                   acqver |-> [t \in threads |-> -1],     \* version at the outermost acquire of t
                   acquired |-> [t \in threads |-> FALSE], \* t acquired the lock since its start
                   active |-> [t \in threads |-> FALSE],
                   lk |-> 0,                               \* the lock object the threads synchronise on (0: none used yet)
                   ok |-> TRUE]

Step(id, op, st, e) ==
   LET t == e.t why == op \o ":" \o e.t \o ":" \o e.a IN
   CASE e.a = "start" -> [st EXCEPT !.active[t] = TRUE, !.acquired[t] = FALSE]
     [] e.a = "try"   -> st
     [] e.a = "acq"   ->
          IF Say(st.owner = None \/ st.owner = t, id, "acquired_while_held_by_other", why)
          THEN [st EXCEPT !.owner = t, !.cnt = IF st.owner = t THEN st.cnt + 1 ELSE 1,
                          !.acqver[t] = IF st.owner = t THEN st.acqver[t] ELSE st.ver,
                          !.acquired[t] = TRUE]
          ELSE st
     [] e.a = "rel"   ->
          IF Say(st.owner = t, id, "release_by_non_owner", why)
          THEN [st EXCEPT !.cnt = st.cnt - 1, !.owner = IF st.cnt = 1 THEN None ELSE t]
          ELSE st
     [] e.a = "mut"   ->
          IF Say(st.owner = t, id, "mutation_outside_critical_section", why) THEN [st EXCEPT !.ver = e.v] ELSE [st EXCEPT !.ver = e.v]
     [] e.a = "read"  ->
          IF Say(st.owner = t, id, "read_without_lock", why) THEN st ELSE st
     [] e.a = "snap"  ->
          IF /\ Say(Committed(e.v), id, "snapshot_shows_uncommitted_state", why)
             /\ Say(st.acquired[t], id, "snapshot_without_acquire", why)
             /\ Say(~st.acquired[t] \/ e.v = st.acqver[t], id, "snapshot_not_the_state_at_acquire", why)
          THEN st ELSE st
     [] e.a = "nsnap" ->
          IF Say(st.owner = t /\ e.v = st.ver, id, "owner_snapshot_wrong_version", why) THEN st ELSE st
     [] e.a = "end"   ->
          IF /\ Say(st.acquired[t], id, "operation_never_acquired_the_lock", why)
             /\ Say(st.owner # t, id, "lock_still_held_after_operation", why)
          THEN [st EXCEPT !.active[t] = FALSE] ELSE [st EXCEPT !.active[t] = FALSE]
     [] e.a = "newlock" -> st     \* a lock object was created inside an operation (not in itself a deviation)
     [] e.a = "uses"  ->          \* first acquire of thread t on lock object e.v: the tree has ONE lock
          IF Say(st.lk = 0 \/ st.lk = e.v, id, "threads_synchronise_on_different_lock_objects", why)
          THEN [st EXCEPT !.lk = e.v] ELSE st
     [] e.a = "deviation" -> IF Say(FALSE, id, "schedule_deviation:" \o e.got \o "_instead_of_" \o e.exp, why) THEN st ELSE st
     [] e.a = "not_reentrant" -> IF Say(FALSE, id, "lock_not_reentrant", why) THEN st ELSE st
     [] e.a = "error" -> IF Say(FALSE, id, "operation_raised:" \o e.got, why) THEN st ELSE st
     [] OTHER -> IF Say(FALSE, id, "unknown_event", why) THEN st ELSE st

CheckTrace(tr) ==
   LET threads == {tr.events[i].t : i \in 1..Len(tr.events)}
       final == FoldLeft(LAMBDA st, e : Step(tr.id, tr.op, st, e), Init0(threads), tr.events)
   IN /\ Say(final.owner = None /\ final.cnt = 0, tr.id, "lock_not_free_at_the_end", tr.op)
      /\ Say(\A t \in threads : ~final.active[t], tr.id, "operation_did_not_finish", tr.op)

NEvents == FoldLeft(LAMBDA acc, tr : acc + Len(tr.events), 0, Traces)
ASSUME \A i \in 1..Len(Traces) : CheckTrace(Traces[i])
ASSUME PrintT(<<"CHECKED", NEvents>>)
Init == dummy = 0
Next == UNCHANGED dummy
=============================================================================
