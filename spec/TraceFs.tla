------------------------------ MODULE TraceFs ------------------------------
(* code -> spec for C19: records {id, st (directory tree), rank, obs}; observations scan / reload carry the nested
   result <<rank, isdir, children>> plus flags computed against os.stat by the harness *)
EXTENDS NutreeFs, Json, IOUtils
VARIABLE dummy
Recs == JsonDeserialize(IOEnv.TRACE_FILE)
LoadState(j) == Derive([n |-> j.n, par |-> j.par, kids |-> j.kids, top |-> j.top, dat |-> j.dat,
                        did |-> j.did, knd |-> j.knd, meta |-> j.meta, reg |-> {}, idx |-> <<>>,
                        typed |-> j.typed])
Say(cond, id, prop, clause, why) == cond \/ PrintT(<<"MISMATCH", id, prop, clause, why>>)
CheckObs(D, rank, id, o) ==
   LET why == o.q \o ":sort=" \o ToString(o.a.sort) \o (IF "via" \in DOMAIN o.a THEN ":via=" \o o.a.via ELSE "")
       exp == Scan(D, rank) IN
   /\ Say(o.r.s = "ok", id, "C19", o.q \o ".status:" \o o.r.s, why)
   /\ (o.r.s = "ok" =>
         /\ Say(NormSeq(o.r.v.tree) = exp, id, "C19", o.q \o ".entries", why)
         /\ Say(~o.a.sort \/ o.r.v.tree = exp, id, "C19", o.q \o ".sorted_order", why)
         /\ Say(o.r.v.stat_ok, id, "C19", o.q \o ".size_or_mtime", why)
         /\ Say(o.r.v.cls, id, "C19", o.q \o ".class", why))
CheckRec(e) == LET D == LoadState(e.st) IN
   /\ Say(LawScan(D, e.rank), e.id, "C19", "spec_law", "LawScan")
   /\ \A j \in 1..Len(e.obs) : CheckObs(D, e.rank, e.id, e.obs[j])
NObs == FoldLeft(LAMBDA acc, e : acc + Len(e.obs), 0, Recs)
ASSUME \A i \in 1..Len(Recs) : CheckRec(Recs[i])
ASSUME PrintT(<<"CHECKED", NObs>>)
Init == dummy = 0
Next == UNCHANGED dummy
=============================================================================
