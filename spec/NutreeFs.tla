------------------------------ MODULE NutreeFs ------------------------------
(***************************************************************************)
(* C19: load_tree_from_fs.  A directory tree is a tree state D whose nodes *)
(* are directory entries: knd[i] = 2 for a sub-directory, 1 for a file     *)
(* (files are leaves), rank[i] = position of the entry's name in the       *)
(* string order (names are unique within a folder).  Scan(D, sort) is the  *)
(* expected result as a nested structure <<rank, isdir, children>>:        *)
(* with sort, every folder lists its files first, name-sorted, then its    *)
(* sub-directories, name-sorted; without sort the order within a folder    *)
(* is unspecified (compared after normalising sibling order).              *)
(***************************************************************************)
EXTENDS Nutree

IsDir(D, i) == D.knd[i] = 2
ValidDir(D) == \A i \in Reach(D) : D.kids[i] # <<>> => IsDir(D, i)
SortByRank(rank, s) == SortSeq(s, LAMBDA a, b : rank[a] < rank[b])
RECURSIVE ScanSeq(_, _, _)
ScanSeq(D, rank, seq) ==
   LET files == SortByRank(rank, SelectSeq(seq, LAMBDA i : ~IsDir(D, i)))
       dirs  == SortByRank(rank, SelectSeq(seq, LAMBDA i : IsDir(D, i)))
       ord   == files \o dirs
   IN [j \in 1..Len(ord) |-> <<rank[ord[j]], IsDir(D, ord[j]), ScanSeq(D, rank, D.kids[ord[j]])>>]
Scan(D, rank) == ScanSeq(D, rank, D.top)

(* normal form of an observed nested result: siblings sorted files-first / by rank (for sort = False) *)
RECURSIVE NormSeq(_)
NormSeq(c) ==
   LET idx == [j \in 1..Len(c) |-> j]
       key(j) == (IF c[j][2] THEN 1000 ELSE 0) + c[j][1]
       ord == SortSeq(idx, LAMBDA a, b : key(a) < key(b))
   IN [j \in 1..Len(ord) |-> <<c[ord[j]][1], c[ord[j]][2], NormSeq(c[ord[j]][3])>>]
RECURSIVE CountEntries(_)
CountEntries(c) == FoldLeft(LAMBDA acc, e : acc + 1 + CountEntries(e[3]), 0, c)
LawScan(D, rank) == ValidDir(D) => /\ CountEntries(Scan(D, rank)) = Cardinality(Reach(D))
                                    /\ NormSeq(Scan(D, rank)) = Scan(D, rank)
=============================================================================
