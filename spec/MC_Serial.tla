----------------------------- MODULE MC_Serial -----------------------------
(***************************************************************************)
(* MC_Core's state space (labelled forests with clones, kinds, explicit    *)
(* ids) with the serialisation laws of NutreeSerial checked on every       *)
(* state, and every serialisable state printed once together with its      *)
(* documented file layout Encode(S) and dict-list form for the harness.    *)
(***************************************************************************)
EXTENDS MC_Core, NutreeSerial

InvEncode == LawEncode(t)
InvDictList == LawDictList(t)
EntryJson(e) == [pp |-> e.pp, ref |-> e.ref, d |-> e.d, xid |-> e.xid, k |-> e.k]
EmitSerialInv == SerialOK(t) =>
   PrintT(ToJson([state |-> StateJson(t),
                  enc |-> [i \in 1..Len(Encode(t)) |-> EntryJson(Encode(t)[i])]]))
(* the dict-list form stores every node's own data: also states in which one clone group holds several data objects *)
EmitAllInv == PrintT(ToJson([state |-> StateJson(t), serial_ok |-> SerialOK(t),
                             enc |-> [i \in 1..Len(Encode(t)) |-> EntryJson(Encode(t)[i])]]))
=============================================================================
