----------------------------- MODULE TraceCore -----------------------------
(***************************************************************************)
(* code -> spec: validate steps recorded from the real library.            *)
(*                                                                         *)
(* The trace file (env TRACE_FILE) is a JSON array of independent step     *)
(* records  {id, pre, src?, op, status, ret, post | bad, obs, srcpost?}.   *)
(* pre/post are abstract states as projected through the public read API   *)
(* (nodes of pre numbered 1..n in pre-order, nodes created by the step     *)
(* numbered after them in pre-order, removed nodes par = -1).              *)
(* For every record TLC                                                    *)
(*   - computes Nutree!Apply(pre, op) and compares status / return value / *)
(*     post-state with what the code did                     (C04, C07)    *)
(*   - evaluates WellFormed / IndexExact / SiblingUnique on the LOGGED     *)
(*     post-state and its logged lookups                (C01, C02, C03)    *)
(*   - checks that a step that ended in an exception left the logged       *)
(*     state unchanged                                            (C13)    *)
(* The verdict is total: every failing clause is printed as                *)
(*   <<"MISMATCH", id, property, clause, why>>  and checking continues.    *)
(***************************************************************************)
EXTENDS Nutree, Json, IOUtils

VARIABLE dummy

Recs == JsonDeserialize(IOEnv.TRACE_FILE)

LoadState(j) == Derive([n |-> j.n, par |-> j.par, kids |-> j.kids, top |-> j.top, dat |-> j.dat,
                        did |-> j.did, knd |-> j.knd, meta |-> j.meta, reg |-> {}, idx |-> <<>>,
                        typed |-> j.typed])

Say(cond, id, prop, clause, why) == cond \/ PrintT(<<"MISMATCH", id, prop, clause, why>>)

LiveIds(j) == {i \in 1..j.n : j.par[i] # -1}
SameNode(a, b, i) == /\ a.kids[i] = b.kids[i] /\ a.dat[i] = b.dat[i] /\ a.did[i] = b.did[i]
                     /\ a.knd[i] = b.knd[i] /\ a.meta[i] = b.meta[i]
(* structural equality of two states over their live nodes *)
SameState(a, b) == /\ a.n = b.n /\ a.top = b.top /\ a.par = b.par
                   /\ \A i \in 1..a.n : a.par[i] # -1 => SameNode(a, b, i)
(* "unchanged": the post projection has no new ids and equals pre *)
Unchanged(pre, post) == post.n = pre.n /\ SameState(pre, post)

StatusAllowed(r, status) ==
   IF status = "ok" THEN r.ok ELSE ("*" \in r.errs \/ status \in r.errs)

RetNodeOps == {"add_child", "append_child", "prepend_child", "prepend_sibling", "append_sibling", "add_node"}
CopyOps == {"add_node", "add_tree", "tree_copy_to", "copy_children_to"}

(* ------------------------------------------------------------------------ *)
(* invariants on the logged post state + logged lookups (no expectation involved) *)
LoggedWellFormed(e, P) ==     \* P = LoadState(e.post)
   LET id == e.id why == e.op.name IN
   /\ Say(NoDup(Pre(P, 0)), id, "C01", "node_once", why)
   /\ Say(\A i \in LiveIds(e.post) : e.post.par[i] >= 0, id, "C01", "parent_known", why)
   /\ Say(\A p \in LiveIds(e.post) \cup {0} : \A j \in 1..Len(KidsOf(P, p)) :
              KidsOf(P, p)[j] \in 1..P.n /\ P.par[KidsOf(P, p)[j]] = p, id, "C01", "parent_child_agree", why)
   /\ Say(\A i \in LiveIds(e.post) : e.obs.own[i] = 1, id, "C01", "owner", why)
   /\ Say(e.obs.count = Cardinality(LiveIds(e.post)) /\ e.obs.len = e.obs.count, id, "C01", "count", why)
   /\ Say(\A j \in 1..Len(e.obs.by_nid_live) : e.obs.by_nid_live[j] = 1, id, "C01", "node_id_lookup", why)
   /\ Say(\A j \in 1..Len(e.obs.by_nid_gone) : e.obs.by_nid_gone[j][2] = 0, id, "C01", "removed_still_found", why)
   /\ Say(e.obs.iter = Pre(P, 0), id, "C01", "iteration", why)

LoggedIndexExactFor(prop, e, P) ==
   LET id == e.id why == e.op.name
       R  == LiveIds(e.post)
       With(d) == {i \in R : e.post.did[i] = d}
   IN
   /\ Say(\A j \in 1..Len(e.obs.by_did) : SeqSet(e.obs.by_did[j][2]) = With(e.obs.by_did[j][1])
                                          /\ Len(e.obs.by_did[j][2]) = Cardinality(With(e.obs.by_did[j][1])),
          id, prop, "find_all_data_id", why)
   /\ Say(e.obs.count_unique = Cardinality({e.post.did[i] : i \in R}), id, prop, "count_unique", why)
   /\ Say(\A j \in 1..Len(e.obs.by_data) :
              LET q == e.obs.by_data[j] M == With(DefDid(q.d)) IN
              /\ SeqSet(q.all) = M /\ Len(q.all) = Cardinality(M)
              /\ (IF M = {} THEN q.first = 0 ELSE q.first \in M)
              /\ q.has = (M # {})
              /\ SeqSet(q.root_all) = M /\ Len(q.root_all) = Cardinality(M)
              /\ SeqSet(q.root_did) = M /\ Len(q.root_did) = Cardinality(M)
              /\ \A k \in 1..Len(q.lim) : /\ SeqSet(q.lim[k]) \subseteq M
                                          /\ NoDup(q.lim[k])
                                          /\ Len(q.lim[k]) = (IF k < Cardinality(M) THEN k ELSE Cardinality(M)),
          id, prop, "find_by_data", why)
   /\ Say(\A j \in 1..Len(e.obs.clones) :
              LET q == e.obs.clones[j] M == With(e.post.did[q.i]) IN
              /\ SeqSet(q.others) = M \ {q.i} /\ Len(q.others) = Cardinality(M) - 1
              /\ SeqSet(q.withself) = M /\ Len(q.withself) = Cardinality(M)
              /\ q.isclone = (Cardinality(M) > 1),
          id, prop, "clones", why)
   \* "a node's data_id is the explicit id it was given, else the id callback applied to its data, else hash(data)":
   \* explicit ids are the model values >= 11; every other id must be the default id of the data the node holds NOW
   \* (no node under a stale id after its data was changed).  Records of the repository's own tests use per-record
   \* registries of ids and are exempt.
   /\ Say(\A i \in R : e.post.did[i] # -1 /\ (e.fl = "suite" \/ e.post.did[i] >= 11 \/ e.post.did[i] = DefDid(e.post.dat[i])),
          id, prop, "data_id_rule", why)

LoggedIndexExact(e, P) == LoggedIndexExactFor("C02", e, P)

LoggedSiblingUnique(e, P) ==
   Say(\A p \in LiveIds(e.post) \cup {0} : NoDup(KidDids(P, p)), e.id, "C03", "sibling_unique", e.op.name)

(* ------------------------------------------------------------------------ *)
(* C13, fault half: a user callback raised at its k-th invocation during e.op.target.  Nothing is expected of
   the outcome except: the tree still satisfies C01-C03, and a read-only operation left it unchanged. *)
CheckFault(e) ==
   IF "bad" \in DOMAIN e THEN Say(FALSE, e.id, "C13", "fault.unprojectable:" \o e.bad, e.op.target)
   ELSE LET P == LoadState(e.post) why == e.op.target \o "#" \o ToString(e.op.k) IN
        /\ LoggedWellFormed([e EXCEPT !.op = [name |-> why]], P)
        /\ LoggedIndexExact([e EXCEPT !.op = [name |-> why]], P)
        /\ LoggedSiblingUnique([e EXCEPT !.op = [name |-> why]], P)
        /\ Say(~e.op.readonly \/ Unchanged(e.pre, e.post), e.id, "C13", "fault.readonly_changed_tree", why)
        /\ Say(WellFormed(P) /\ SiblingUnique(P), e.id, "C13", "fault.tree_corrupt", why)
        /\ Say(e.obs.count = Cardinality(LiveIds(e.post)), e.id, "C13", "fault.count", why)
        /\ Say(\A j \in 1..Len(e.obs.by_did) :
                  SeqSet(e.obs.by_did[j][2]) = {i \in LiveIds(e.post) : e.post.did[i] = e.obs.by_did[j][1]},
               e.id, "C13", "fault.index", why)

CheckStep(e) ==
   LET id  == e.id
       S0  == LoadState(e.pre)
       W   == [t |-> S0, s |-> IF "src" \in DOMAIN e THEN LoadState(e.src) ELSE EmptyTree(S0.typed)]
       r   == Apply(W, e.op)
       why == r.why
       bad == "bad" \in DOMAIN e
   IN
   IF bad THEN
      /\ Say(FALSE, id, "C01", "unprojectable:" \o e.bad, why)
      \* the tree could be read, but a lookup / clone query raised: the index is out of step with the nodes
      /\ ("badwhere" \in DOMAIN e => Say(FALSE, id, "C02", "lookup_raised:" \o e.bad, why))
      \* a copy operation after which the tree (which holds the source) cannot be read any more
      /\ (e.op.name \in CopyOps => Say(FALSE, id, "C07", "copy_left_tree_unreadable:" \o e.bad, why))
      /\ Say(StatusAllowed(r, e.status), id, "C04", "status:" \o e.status, why)
      \* a refused call after which the tree (or its lookups) cannot even be observed is not "unchanged"
      /\ Say(e.status = "ok", id, "C13", "unobservable_after_error:" \o e.bad, why)
   ELSE
   LET P == LoadState(e.post) X == r.st IN
   \* --- invariants on what the code left behind
   /\ LoggedWellFormed(e, P)
   /\ LoggedIndexExact(e, P)
   /\ LoggedSiblingUnique(e, P)
   \* --- C13: an escaping exception leaves the observable tree unchanged
   /\ Say(e.status = "ok" \/ Unchanged(e.pre, e.post), id, "C13", "changed_on_error:" \o e.status, why)
   \* ... observably unchanged includes the lookups (they were exact before the call)
   /\ (e.status # "ok" /\ Unchanged(e.pre, e.post) => LoggedIndexExactFor("C13", [e EXCEPT !.op = [name |-> "lookups_after_refusal:" \o why]], P))
   \* --- a node_id chosen by the caller is registered iff the call was carried out (C01 / C13)
   /\ ("new_nid" \in DOMAIN e.obs /\ Len(e.obs.new_nid) = 1 =>
         Say(e.obs.new_nid[1] = (IF e.status = "ok" THEN 1 ELSE 0), id, IF e.status = "ok" THEN "C01" ELSE "C13",
             "explicit_node_id_lookup:" \o e.status, why))
   \* --- C03: whatever would create duplicate siblings is refused with the uniqueness error
   /\ Say((~r.ok /\ r.errs = {"UniqueConstraintError"}) => e.status = "UniqueConstraintError",
          id, "C03", "dup_not_refused:" \o e.status, why)
   \* --- C04: documented effect
   /\ Say(StatusAllowed(r, e.status), id, "C04", "status:" \o e.status, why)
   /\ (e.status = "ok" /\ r.ok =>
         /\ Say(e.post.n = X.n, id, "C04", "post.n", why)
         /\ (e.post.n = X.n =>
               /\ Say(e.post.top = X.top, id, "C04", "post.top", why)
               /\ Say(e.post.par = X.par, id, "C04", "post.par", why)
               /\ Say(\A i \in 1..X.n : X.par[i] # -1 => e.post.kids[i] = X.kids[i], id, "C04", "post.kids", why)
               /\ Say(\A i \in 1..X.n : X.par[i] # -1 => e.post.dat[i] = X.dat[i], id, "C04", "post.dat", why)
               /\ Say(\A i \in 1..X.n : X.par[i] # -1 => e.post.did[i] = X.did[i], id, "C04", "post.did", why)
               /\ Say(\A i \in 1..X.n : X.par[i] # -1 => e.post.knd[i] = X.knd[i], id, "C04", "post.knd", why)
               /\ Say(\A i \in 1..X.n : X.par[i] # -1 => e.post.meta[i] = X.meta[i], id, "C04", "post.meta", why))
         /\ Say(e.op.name \notin RetNodeOps \/ e.ret = r.ret, id, "C04", "ret", why))
   \* --- C07: copy operations are faithful and leave the source untouched
   /\ ("srcpost" \in DOMAIN e => Say(e.srcpost = "same", id, "C07", "source_changed", why))
   /\ (e.op.name \in CopyOps /\ e.status = "ok" /\ r.ok =>
         Say(e.post.n = X.n /\ SameState(X, e.post), id, "C07", "copy_not_faithful", why))

CheckRec(e) == IF e.op.name = "fault" THEN CheckFault(e) ELSE CheckStep(e)
ASSUME \A i \in 1..Len(Recs) : CheckRec(Recs[i])
ASSUME PrintT(<<"CHECKED", Len(Recs)>>)

Init == dummy = 0
Next == UNCHANGED dummy
=============================================================================
