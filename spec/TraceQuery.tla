----------------------------- MODULE TraceQuery -----------------------------
(***************************************************************************)
(* code -> spec for the read-only API: the trace file is a JSON array of   *)
(* records {id, st, obs}; st is an abstract tree state (ids in pre-order), *)
(* obs a list of observations {q: query name, a: arguments, r: {s, v}}     *)
(* where s = "ok" or the exception class and v the (normalised) answer of  *)
(* the real library.  Every observation is compared with the operator of   *)
(* NutreeQueries for that query.  Total verdict, as in TraceCore.          *)
(***************************************************************************)
EXTENDS NutreeQueries, Json, IOUtils

VARIABLE dummy

Recs == JsonDeserialize(IOEnv.TRACE_FILE)

LoadState(j) == Derive([n |-> j.n, par |-> j.par, kids |-> j.kids, top |-> j.top, dat |-> j.dat,
                        did |-> j.did, knd |-> j.knd, meta |-> j.meta, reg |-> {}, idx |-> <<>>,
                        typed |-> j.typed])

Say(cond, id, prop, clause, why) == cond \/ PrintT(<<"MISMATCH", id, prop, clause, why>>)
OkV(o, exp) == o.r.s = "ok" /\ o.r.v = exp

VFun(S, v) == [i \in 0..S.n |-> IF i = 0 THEN "none" ELSE v[i]]
Fold45(px) == [i \in 1..Len(px) |-> [j \in 1..Len(px[i]) |-> IF px[i][j] = 4 THEN 2 ELSE IF px[i][j] = 5 THEN 3 ELSE px[i][j]]]

CheckFields(id, prop, q, why, got, exp, fields) ==
   \A f \in fields : Say(got[f] = exp[f], id, prop, q \o "." \o f, why)

CheckObs(S, id, o) ==
   LET a == o.a why == ToString(o.a) IN
   CASE o.q = "iter" ->
          Say(OkV(o, Iter(S, a.m, a.start, a.self)), id, "C06", "iter:" \o a.m, why)
     [] o.q = "iter_set" ->
          Say(o.r.s = "ok" /\ IsPerm(o.r.v, Reach(S)), id, "C06", "iter:" \o a.m, why)
     [] o.q = "visit" ->
          LET vf == VFun(S, a.v)
              ex == Visit(S, a.m, a.start, a.self, vf)
              st == VisitStopped(S, a.m, a.start, a.self, vf)
          IN /\ Say(o.r.s = "ok", id, "C06", "visit.status:" \o o.r.s, why)
             /\ (o.r.s = "ok" =>
                   /\ Say(o.r.v.seq = ex, id, "C06", "visit.order:" \o a.m \o ":" \o a.form, why)
                   /\ Say(o.r.v.ret = (IF st THEN a.val ELSE 0), id, "C06", "visit.return:" \o a.form, why))
     [] o.q = "find_all" ->
          Say(OkV(o, Search(S, a.start, a.self, SeqSet(a.M), a.k)), id, "C09", "find_all:" \o a.via, why)
     [] o.q = "find_first" ->
          Say(OkV(o, FindFirst(S, a.start, FALSE, SeqSet(a.M))), id, "C09", "find_first:" \o a.via, why)
     [] o.q = "getitem" ->
          LET g == GetItem(S, a.key) IN
          Say(IF g.ok THEN OkV(o, g.ret) ELSE o.r.s \in g.errs, id, "C09", "getitem:" \o a.key.t \o ":" \o o.r.s, why)
     [] o.q = "rel" ->
          /\ Say(o.r.s = "ok", id, "C10", "rel.status:" \o o.r.s, why)
          /\ (o.r.s = "ok" => CheckFields(id, "C10", "rel", why, o.r.v, Rel(S, a.x), RelFields))
     [] o.q = "up" ->
          Say(OkV(o, Up(S, a.x, a.level)), id, "C10", "up", why)
     [] o.q = "pair" ->
          /\ Say(o.r.s = "ok", id, "C10", "pair.status:" \o o.r.s, why)
          /\ (o.r.s = "ok" =>
                /\ Say(o.r.v.anc = IsAnc(S, a.x, a.y), id, "C10", "pair.is_ancestor_of", why)
                /\ Say(o.r.v.desc = IsAnc(S, a.y, a.x), id, "C10", "pair.is_descendant_of", why)
                /\ Say(o.r.v.common = CommonAnc(S, a.x, a.y), id, "C10", "pair.common_ancestor", why))
     [] o.q = "pair_foreign" ->     \* y is a node of ANOTHER tree (same shape, same node_ids): no relation, no common ancestor
          /\ Say(o.r.s = "ok", id, "C10", "pair_foreign.status:" \o o.r.s, why)
          /\ (o.r.s = "ok" =>
                /\ Say(~o.r.v.anc /\ ~o.r.v.desc, id, "C10", "pair_foreign.related", why)
                /\ Say(o.r.v.common = 0, id, "C10", "pair_foreign.common_ancestor", why))
     [] o.q = "tree" ->
          /\ Say(o.r.s = "ok", id, "C10", "tree.status:" \o o.r.s, why)
          /\ (o.r.s = "ok" =>
                /\ Say(o.r.v.height = Height(S, 0), id, "C10", "tree.height", why)
                /\ Say(o.r.v.children = S.top, id, "C10", "tree.children", why)
                /\ Say(o.r.v.first = FirstOf(S.top) /\ o.r.v.last = LastOf(S.top), id, "C10", "tree.first_last", why))
     [] o.q = "trel" ->
          /\ Say(o.r.s = "ok", id, "C15", "trel.status:" \o o.r.s, why)
          /\ (o.r.s = "ok" => CheckFields(id, "C15", IF a.any THEN "trel_any" ELSE "trel", why, o.r.v,
                                          TypedRel(S, a.x, a.any), TypedRelFields))
     [] o.q = "kindq" ->
          /\ Say(o.r.s = "ok", id, "C15", "kindq.status:" \o o.r.s, why)
          /\ (o.r.s = "ok" => CheckFields(id, "C15", "kindq", why, o.r.v, KindQ(S, a.p, a.k), DOMAIN o.r.v))
     [] o.q = "iter_by_type" ->
          Say(OkV(o, OfKind(S, Pre(S, 0), a.k)), id, "C15", "iter_by_type", why)
     [] o.q = "format" ->
          LET px == PrefixSeq(S, a.start, a.self, a.lstrip)
              ex == IF a.compact THEN px ELSE Fold45(px)
          IN /\ Say(o.r.s = "ok", id, "C16", "format.status:" \o o.r.s, why)
             /\ (o.r.s = "ok" =>
                   /\ Say(o.r.v.lines = FormatLines(S, a.start, a.self), id, "C16", "format.lines:" \o a.style, why)
                   /\ Say(o.r.v.title = a.title, id, "C16", "format.title:" \o a.style, why)
                   /\ Say(a.list \/ a.lenonly \/ o.r.v.prefix = ex, id, "C16", "format.prefix:" \o a.style, why)
                   /\ Say(~a.lenonly \/ [i \in 1..Len(o.r.v.prefix) |-> Len(o.r.v.prefix[i])] = [i \in 1..Len(ex) |-> Len(ex[i])],
                          id, "C16", "format.prefix_length:" \o a.style, why)
                   /\ Say(~a.list \/ \A i \in 1..Len(o.r.v.prefix) : o.r.v.prefix[i] = <<>>, id, "C16",
                          "format.list_has_prefix", why))

CheckExport(S, id, o) ==
   LET a == o.a why == ToString(o.a)
       keys == ExportNodeKeys(S, a.start, a.self, a.unique)
       edges == ExportEdges(S, a.start, a.self, a.unique)
       Names(i) == ExportKey(S, i, a.unique)
   IN
   /\ Say(o.r.s = "ok", id, "C17", "export.status:" \o a.fmt \o ":" \o o.r.s, why)
   /\ (o.r.s = "ok" =>
         /\ Say(SeqSet(o.r.v.nodes) = keys, id, "C17", "export.graph_nodes:" \o a.fmt, why)
         /\ Say(a.fmt = "rdf" \/ NoDup(o.r.v.nodes) \/ a.dup_defs_ok, id, "C17", "export.node_defined_twice:" \o a.fmt, why)
         /\ Say(IF a.fmt = "rdf" THEN SeqSet(o.r.v.edges) = {<<e[1], e[2]>> : e \in SeqSet(edges)}
                ELSE SameBag(o.r.v.edges, [j \in 1..Len(edges) |-> <<edges[j][1], edges[j][2]>>]),
                id, "C17", "export.edges:" \o a.fmt, why)
         /\ Say(~S.typed \/ (IF a.fmt = "rdf"
                               THEN SeqSet(o.r.v.kinds) = {<<ExportKey(S, i, a.unique), S.knd[i]>> : i \in ExportMembers(S, a.start, a.self) \ {0}}
                               ELSE SameBag(o.r.v.edge_kinds, edges)),
                id, "C17", "export.kind_labels:" \o a.fmt, why)
         \* RDF: the index triples carry each child's position among its siblings
         /\ Say(a.fmt # "rdf" \/ SeqSet(o.r.v.index) = {<<ExportKey(S, i, TRUE), Idx(S, i) - 1>> : i \in Desc(S, a.start)},
                id, "C17", "export.rdf_index", why)
         \* every exported tree node's name is carried by its graph node
         /\ Say(\A i \in Desc(S, a.start) : <<Names(i), S.dat[i]>> \in SeqSet(o.r.v.names), id, "C17",
                "export.names:" \o a.fmt, why))

(* C07: Tree.copy / Node.copy / copy_to a new tree: the copy is the whole (sub)forest, in order, same data objects,
   data_ids and kinds, of the source's class, and the source is untouched *)
RECURSIVE FullForest(_, _)
FullForest(S, seq) == [i \in 1..Len(seq) |-> <<seq[i], FullForest(S, S.kids[seq[i]])>>]
CheckCopy(S, id, o) ==
   LET a == o.a why == ToString(o.a)
       exp == IF a.p = 0 \/ ~a.self THEN FullForest(S, KidsOf(S, a.p)) ELSE << <<a.p, FullForest(S, S.kids[a.p])>> >>
   IN
   /\ Say(o.r.s = "ok", id, "C07", "copy.status:" \o a.via \o ":" \o o.r.s, why)
   /\ (o.r.s = "ok" =>
         /\ Say(o.r.v.forest = exp, id, "C07", "copy.shape_or_order:" \o a.via, why)
         /\ Say(o.r.v.faithful, id, "C07", "copy.data_or_id_differs:" \o a.via, why)
         /\ Say(o.r.v.kinds, id, "C07", "copy.kind_differs:" \o a.via, why)
         /\ Say(o.r.v.cls, id, "C07", "copy.result_class:" \o a.via, why)
         /\ Say(o.r.v.selfdup = <<>>, id, "C07", "copy.node_twice:" \o a.via, why)
         /\ Say(o.r.v.src_same, id, "C07", "copy.source_changed:" \o a.via, why)
         /\ Say(o.r.v.independent, id, "C07", "copy.not_independent:" \o a.via, why)
         \* "later mutation histories on the copy": the new tree identifies data like the source tree does
         /\ Say(o.r.v.like_source, id, "C07", "copy.tree_configuration_lost:" \o a.via, why))

CheckFilter(S, id, o) ==
   LET a == o.a why == ToString([p |-> a.p, v |-> a.v, form |-> a.form])
       K == FilterKeep(S, a.p, a.v)
       called == FilterCalled(S, a.p, a.v)
   IN
   CASE o.q = "filter_inplace" ->
          LET X == DoFilter(S, a.p, a.v, "filter").st IN
          /\ Say(o.r.s = "ok", id, "C08", "inplace.status:" \o o.r.s, why)
          /\ (o.r.s = "ok" =>
                /\ Say(SeqSet(o.r.v.live) = Live(X), id, "C08", "inplace.kept_set:" \o a.form, why)
                /\ Say(o.r.v.top = X.top /\ \A i \in Live(X) : o.r.v.kids[i] = X.kids[i], id, "C08",
                       "inplace.order:" \o a.form, why)
                /\ Say(o.r.v.called = called, id, "C08", "inplace.called:" \o a.form, why))
     [] o.q = "filter_copy" ->
          LET exp == IF a.p = 0 \/ ~a.self THEN KeptForest(S, K, KidsOf(S, a.p))
                     ELSE << <<a.p, KeptForest(S, K, S.kids[a.p])>> >>
          IN
          /\ Say(o.r.s = "ok", id, "C08", "copy.status:" \o o.r.s \o ":" \o a.via, why)
          /\ (o.r.s = "ok" =>
                /\ Say(o.r.v.forest = exp, id, "C08", "copy.result:" \o a.via \o ":" \o a.form, why)
                /\ Say(o.r.v.called = called, id, "C08", "copy.called:" \o a.form, why)
                /\ Say(o.r.v.src_same, id, "C08", "copy.source_changed", why)
                /\ Say(o.r.v.faithful, id, "C08", "copy.data_or_id_differs", why)
                /\ Say(o.r.v.cls, id, "C08", "copy.result_class", why)
                /\ Say(o.r.v.kinds, id, "C08", "copy.kind_differs", why)
                \* each kept node appears once: no node "once more below itself"
                /\ Say(o.r.v.selfdup = <<>>, id, "C08", "copy.accepted_node_twice", why))

CheckRec(e) == LET S == LoadState(e.st) IN
   \A j \in 1..Len(e.obs) : IF e.obs[j].q \in {"filter_inplace", "filter_copy"} THEN CheckFilter(S, e.id, e.obs[j])
                              ELSE IF e.obs[j].q = "export" THEN CheckExport(S, e.id, e.obs[j])
                              ELSE IF e.obs[j].q = "copy" THEN CheckCopy(S, e.id, e.obs[j])
                              ELSE CheckObs(S, e.id, e.obs[j])
NObs == FoldLeft(LAMBDA acc, e : acc + Len(e.obs), 0, Recs)

ASSUME \A i \in 1..Len(Recs) : CheckRec(Recs[i])
ASSUME PrintT(<<"CHECKED", NObs>>)

Init == dummy = 0
Next == UNCHANGED dummy
=============================================================================
