----------------------------- MODULE TraceDiff -----------------------------
(* code -> spec for C11: records {id, t0, t1, r (state + mark/o0/o1), ordered, reduce, inputs_same}; every law
   of NutreeDiff!Laws is evaluated on the real result *)
EXTENDS NutreeDiff, Json, IOUtils
VARIABLE dummy
Recs == JsonDeserialize(IOEnv.TRACE_FILE)
LoadState(j) == Derive([n |-> j.n, par |-> j.par, kids |-> j.kids, top |-> j.top, dat |-> j.dat,
                        did |-> j.did, knd |-> j.knd, meta |-> j.meta, reg |-> {}, idx |-> <<>>,
                        typed |-> j.typed])
LoadR(j) == LET S == LoadState(j) IN
   [n |-> S.n, par |-> S.par, kids |-> S.kids, top |-> S.top, dat |-> S.dat, did |-> S.did, knd |-> S.knd,
    meta |-> S.meta, reg |-> S.reg, idx |-> S.idx, typed |-> S.typed, mark |-> j.mark, o0 |-> j.o0, o1 |-> j.o1]
Say(cond, id, prop, clause, why) == cond \/ PrintT(<<"MISMATCH", id, prop, clause, why>>)
CheckRec(e) ==
   LET why == "ordered=" \o ToString(e.ordered) \o ",reduce=" \o ToString(e.reduce) IN
   /\ Say(e.status = "ok", e.id, "C11", "diff.status:" \o e.status, why)
   /\ (e.status = "ok" =>
         LET L == Laws(LoadState(e.t0), LoadState(e.t1), LoadR(e.r), e.ordered, e.reduce) IN
         /\ \A nm \in LawNames : Say(L[nm], e.id, "C11", nm, why)
         /\ (e.reduce /\ "full" \in DOMAIN e =>
               \* (which of several added clones becomes "moved here" - and with it which descendants of an added
               \* branch are marked at all - depends on set iteration order and may differ between the two calls:
               \* the comparison is made when the second tree has no clones)
               LET T1 == LoadState(e.t1) IN
               Say((Cardinality({T1.did[x] : x \in Reach(T1)}) = Cardinality(Reach(T1)) /\ SiblingUnique(LoadR(e.full)))
                      => ReduceRestricts(LoadR(e.full), LoadR(e.r)), e.id, "C11", "reduce_is_restriction", why))
         /\ Say(e.inputs_same, e.id, "C11", "inputs_modified", why)
         /\ Say(e.marks_known, e.id, "C11", "unknown_mark_value", why))
ASSUME \A i \in 1..Len(Recs) : CheckRec(Recs[i])
ASSUME PrintT(<<"CHECKED", Len(Recs)>>)
Init == dummy = 0
Next == UNCHANGED dummy
=============================================================================
