----------------------------- MODULE MC_Shapes -----------------------------
(***************************************************************************)
(* Enumerates every ordered forest with at most MaxNodes nodes (optionally *)
(* with a kind per node) by appending nodes, states compacted to pre-order *)
(* numbering.  TLC checks the laws of NutreeQueries on every shape and     *)
(* prints every distinct shape once (invariant EmitState) for the harness. *)
(* Data labels are irrelevant here (dat[i] = pre-order position).          *)
(***************************************************************************)
EXTENDS NutreeQueries, Json

CONSTANTS MaxNodes, K, EmitOn     \* K = number of kinds (0: untyped)
VARIABLE t

Relabel(S) == [S EXCEPT !.dat = [i \in 1..S.n |-> i], !.did = [i \in 1..S.n |-> i]]

Init == t = EmptyTree(K > 0)
Next == /\ t.n < MaxNodes
        /\ \E p \in {0} \cup Live(t), k \in (IF K = 0 THEN {0} ELSE 1..K) :
              LET S1 == Alloc(t, p, 0, 0, k, EmptyMeta)
                  S2 == SetKids(S1, p, Append(KidsOf(S1, p), S1.n))
              IN t' = Derive(Relabel(Compact(S2)))
Spec == Init /\ [][Next]_t

StateJson(S) == [n |-> S.n, par |-> S.par, kids |-> S.kids, top |-> S.top, dat |-> S.dat, did |-> S.did,
                 knd |-> S.knd, meta |-> S.meta, typed |-> S.typed]
EmitState == EmitOn => PrintT(ToJson(StateJson(t)))

InvIter == /\ LawIterPerm(t) /\ LawPreParentFirst(t) /\ LawPostChildrenFirst(t) /\ LawLevelSorted(t)
           /\ LawLevelLeftRight(t) /\ LawRtlMirrors(t) /\ LawZigZag(t)
InvVisit == LawVisitNoSignal(t) /\ LawSkip(t) /\ LawStop(t)
InvRel == LawRelConsistent(t) /\ LawTreeHeight(t)
InvTyped == LawTyped(t)
InvPrefix == LawPrefix(t)
InvFilter == LawFilter(t)
InvExport == LawExportRoot(t)
=============================================================================
