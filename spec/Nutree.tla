------------------------------- MODULE Nutree -------------------------------
(***************************************************************************)
(* Abstract state of a nutree Tree / TypedTree and the INTENDED semantics  *)
(* of every public mutating operation, written as a total step function    *)
(*                                                                         *)
(*      Apply(W, op) = [ok, errs, why, ret, st]                            *)
(*                                                                         *)
(* over a world W = [t |-> tree under test, s |-> foreign source tree].    *)
(* This module has no variables: MC_Core.tla wraps it into a state machine *)
(* (Init/Next over all operations), TraceCore.tla uses the same Apply to   *)
(* validate steps recorded from the real library.                          *)
(*                                                                         *)
(* A tree state S is a record                                              *)
(*   n     number of allocated node ids (1..n); 0 is the invisible root    *)
(*   par   par[i] parent id, 0 = top level, -1 = not in the tree           *)
(*   kids  kids[i] ordered child list           (Node._children)           *)
(*   top   child list of the invisible root                                *)
(*   dat   dat[i] data object (a model value 1..)  (Node._data)            *)
(*   did   did[i] data_id                       (Node._data_id)            *)
(*   knd   kind (0 = untyped tree, 1 = default kind "child", 2.. custom)   *)
(*   meta  meta[i][k] value of meta key k, 0 = absent                      *)
(*   reg   set of registered ids                (Tree._node_by_id)         *)
(*   idx   data_id -> set of ids                (Tree._nodes_by_data_id)   *)
(*   typed TRUE for a TypedTree                                            *)
(* par/kids, reg and idx are redundant on purpose: they are updated by     *)
(* separate sub-operators shaped like the implementation's bookkeeping, so *)
(* their agreement (WellFormed, IndexExact) is a real invariant.           *)
(***************************************************************************)
EXTENDS Naturals, Integers, Sequences, FiniteSets, TLC, SequencesExt, FiniteSetsExt, Functions

CONSTANTS MetaKeys,      \* number of meta keys (meta maps are tuples of that length)
          DefDid(_)      \* the tree's id function: data -> default data_id

(* the two id functions used in configurations (DefDid <- ...) *)
DefDidHash(d) == d                           \* injective: hash(data)
DefDidCallback(d) == 20 + ((d + 1) \div 2)   \* non-injective id callback: data 1,2 are "the same object"

NoErr == {}
AnyErr == {"*"}

----------------------------------------------------------------------------
(* generic helpers *)
Flat(ss) == FoldLeft(LAMBDA acc, s : acc \o s, <<>>, ss)
Rev(s) == [i \in 1..Len(s) |-> s[Len(s) + 1 - i]]
SeqSet(s) == {s[i] : i \in 1..Len(s)}
IndexOf(s, x) == CHOOSE i \in 1..Len(s) : s[i] = x
Without(s, x) == SelectSeq(s, LAMBDA y : y # x)
InsAt(s, i, x) == SubSeq(s, 1, i - 1) \o <<x>> \o SubSeq(s, i, Len(s))   \* x becomes element i
InsSeqAt(s, i, xs) == SubSeq(s, 1, i - 1) \o xs \o SubSeq(s, i, Len(s))
Count(s, x) == Cardinality({i \in 1..Len(s) : s[i] = x})
NoDup(s) == \A i, j \in 1..Len(s) : i # j => s[i] # s[j]
EmptyMeta == [k \in 1..MetaKeys |-> 0]

----------------------------------------------------------------------------
(* state helpers *)
KidsOf(S, p) == IF p = 0 THEN S.top ELSE S.kids[p]
SetKids(S, p, seq) == IF p = 0 THEN [S EXCEPT !.top = seq] ELSE [S EXCEPT !.kids[p] = seq]
Live(S) == {i \in 1..S.n : S.par[i] # -1}

RECURSIVE PreSeq(_, _)
PreSeq(S, seq) == IF seq = <<>> THEN <<>>
                  ELSE <<Head(seq)>> \o PreSeq(S, S.kids[Head(seq)]) \o PreSeq(S, Tail(seq))
Pre(S, p) == PreSeq(S, KidsOf(S, p))
RECURSIVE PostSeq(_, _)
PostSeq(S, seq) == IF seq = <<>> THEN <<>>
                   ELSE PostSeq(S, S.kids[Head(seq)]) \o <<Head(seq)>> \o PostSeq(S, Tail(seq))
Post(S, p) == PostSeq(S, KidsOf(S, p))
Desc(S, p) == SeqSet(Pre(S, p))
Reach(S) == Desc(S, 0)
RECURSIVE AncSeq(_, _)   \* proper ancestors, bottom-up, excluding the root 0
AncSeq(S, x) == IF x = 0 \/ S.par[x] <= 0 THEN <<>> ELSE <<S.par[x]>> \o AncSeq(S, S.par[x])
Anc(S, x) == SeqSet(AncSeq(S, x))
Depth(S, x) == IF x = 0 THEN 0 ELSE Len(AncSeq(S, x)) + 1
KidDids(S, p) == [i \in 1..Len(KidsOf(S, p)) |-> S.did[KidsOf(S, p)[i]]]

EmptyTree(typed) == [n |-> 0, par |-> <<>>, kids |-> <<>>, top |-> <<>>, dat |-> <<>>,
                     did |-> <<>>, knd |-> <<>>, meta |-> <<>>, reg |-> {}, idx |-> <<>>,
                     typed |-> typed]

(* idx is a function whose domain is the set of data_ids in use *)
IdxGet(idx, d) == IF d \in DOMAIN idx THEN idx[d] ELSE {}
IdxAdd(idx, d, i) == [e \in DOMAIN idx \cup {d} |-> IF e = d THEN IdxGet(idx, d) \cup {i} ELSE idx[e]]
IdxDel(idx, d, i) == LET rest == IdxGet(idx, d) \ {i} IN
                     IF rest = {} THEN [e \in DOMAIN idx \ {d} |-> idx[e]]
                     ELSE [e \in DOMAIN idx |-> IF e = d THEN rest ELSE idx[e]]

(* Tree._register / Tree._unregister *)
Register(S, i) == [S EXCEPT !.reg = @ \cup {i}, !.idx = IdxAdd(@, S.did[i], i)]
Unregister(S, i) == [S EXCEPT !.reg = @ \ {i}, !.idx = IdxDel(@, S.did[i], i),
                              !.par[i] = -1, !.kids[i] = <<>>]
UnregisterAll(S, seq) == FoldLeft(LAMBDA acc, i : Unregister(acc, i), S, seq)

(* allocate a fresh node (not yet linked into a child list) *)
Alloc(S, p, d, x, k, m) ==
   LET i == S.n + 1 IN
   Register([S EXCEPT !.n = i, !.par = Append(@, p), !.kids = Append(@, <<>>),
                      !.dat = Append(@, d), !.did = Append(@, x), !.knd = Append(@, k),
                      !.meta = Append(@, m)], i)

----------------------------------------------------------------------------
(* the three structural invariants (C01, C02, C03) as predicates on a state *)
WellFormed(S) ==
   LET pre == Pre(S, 0) IN
   /\ NoDup(pre)                                        \* each node once: no sharing, no cycle
   /\ \A i \in 1..S.n : (i \in SeqSet(pre)) <=> (S.par[i] # -1)   \* removed <=> unreachable
   /\ \A p \in SeqSet(pre) \cup {0} : \A j \in 1..Len(KidsOf(S, p)) : S.par[KidsOf(S, p)[j]] = p
   /\ S.reg = SeqSet(pre)                               \* count = reachable, ids unique
IndexExact(S) ==
   /\ \A d \in DOMAIN S.idx : S.idx[d] # {} /\ S.idx[d] = {i \in Reach(S) : S.did[i] = d}
   /\ \A i \in Reach(S) : S.did[i] \in DOMAIN S.idx
   /\ S.reg = Reach(S)
SiblingUnique(S) == \A p \in Reach(S) \cup {0} : NoDup(KidDids(S, p))
Consistent(S) == WellFormed(S) /\ IndexExact(S) /\ SiblingUnique(S)

(* recompute the redundant parts from kids/top/dat/did (used to load a logged structure) *)
DeriveIdx(S) == LET R == Reach(S) IN
   [d \in {S.did[i] : i \in R} |-> {i \in R : S.did[i] = d}]
Derive(S) == [S EXCEPT !.reg = Reach(S), !.idx = DeriveIdx(S)]

----------------------------------------------------------------------------
(* positions: pos = [t |-> "none"|"false"|"true"|"idx"|"node", v |-> Int] *)
PosNone == [t |-> "none", v |-> 0]
(* insertion index (1-based position the new element takes) in list `seq`, or 0 if invalid *)
PosIndex(S, p, seq, pos) ==
   CASE pos.t \in {"none", "false"} -> Len(seq) + 1
     [] pos.t = "true" -> 1
     [] pos.t = "idx"  -> IF pos.v >= 0 /\ pos.v <= Len(seq) THEN pos.v + 1 ELSE 0
     [] pos.t = "node" -> IF pos.v \in SeqSet(seq) THEN IndexOf(seq, pos.v) ELSE 0
     [] OTHER -> 0        \* "other": a value that is neither bool, int nor node (e.g. the data of a sibling)

(* an int position beyond the end of the child list: the documentation only speaks of "the existing child with
   this index"; Python's list.insert appends.  The specification admits both outcomes: the operation is carried out
   as an append, or it is refused (any error class) - but then the tree must be unchanged (C13). *)
PosOOB(seq, pos) == pos.t = "idx" /\ pos.v > Len(seq)
Result(ok, errs, why, ret, st) == [ok |-> ok, errs |-> errs, why |-> why, ret |-> ret, st |-> st]
Refuse(S, errs, why) == Result(FALSE, errs, why, 0, S)
(* uniform uniqueness rule (C03): a naive result that would hold duplicate siblings is refused *)
Guard(S0, why, ret, S1) ==
   IF SiblingUnique(S1) THEN Result(TRUE, NoErr, why, ret, S1)
   ELSE Refuse(S0, {"UniqueConstraintError"}, why \o ":dup")

----------------------------------------------------------------------------
(* add data as a new child of p *)
EffKind(S, k) == IF ~S.typed THEN 0 ELSE IF k = 0 THEN 1 ELSE k
DoAdd(S, p, d, xid, k, pos, why) ==
   LET seq == KidsOf(S, p)
       at  == PosIndex(S, p, seq, pos)
       x   == IF xid = 0 THEN DefDid(d) ELSE xid
       dup == x \in SeqSet(KidDids(S, p))
   IN IF PosOOB(seq, pos) THEN
           (IF dup THEN Refuse(S, AnyErr \cup {"UniqueConstraintError"}, why \o ":oob_dup")
            ELSE LET S1 == Alloc(S, p, d, x, EffKind(S, k), EmptyMeta) IN
                 Result(TRUE, AnyErr, why \o ":oob", S1.n, SetKids(S1, p, Append(seq, S1.n))))
      ELSE IF at = 0 THEN Refuse(S, AnyErr \cup (IF dup THEN {"UniqueConstraintError"} ELSE {}), why \o ":badpos")
      ELSE IF dup THEN Refuse(S, {"UniqueConstraintError"}, why \o ":dup")
      ELSE LET S1 == Alloc(S, p, d, x, EffKind(S, k), EmptyMeta) IN
           Result(TRUE, NoErr, why, S1.n, SetKids(S1, p, InsAt(seq, at, S1.n)))

(* copy a branch of Src (rooted at x, descendants only if deep) as new child of p in S at index `at`.
   New ids are allocated in pre-order.  kind: the copy's top node gets kind k (typed), descendants keep theirs. *)
RECURSIVE CopyKids(_, _, _, _)
CopyKids(S, q, Src, x) ==   \* append copies of x's children (recursively) below q
   FoldLeft(LAMBDA acc, c :
               LET S1 == Alloc(acc, q, Src.dat[c], Src.did[c], IF acc.typed THEN (IF Src.knd[c] = 0 THEN 1 ELSE Src.knd[c]) ELSE 0, EmptyMeta)
                   i  == S1.n
                   S2 == SetKids(S1, q, Append(KidsOf(S1, q), i))
               IN CopyKids(S2, i, Src, c),
            S, KidsOf(Src, x))
CopyNodeAt(S, p, at, Src, x, k, deep) ==
   LET S1 == Alloc(S, p, Src.dat[x], Src.did[x], k, EmptyMeta)
       i  == S1.n
       S2 == SetKids(S1, p, InsAt(KidsOf(S1, p), at, i))
   IN IF deep THEN CopyKids(S2, i, Src, x) ELSE S2

CopyKind(S, Src, x, k) == IF ~S.typed THEN 0 ELSE IF k # 0 THEN k ELSE IF Src.knd[x] # 0 THEN Src.knd[x] ELSE 1

(* add_child(Node) / copy_to(add_self=True) *)
DoAddNode(S, p, Src, x, k, deep, pos, why) ==
   LET seq == KidsOf(S, p)
       at  == PosIndex(S, p, seq, pos)
       dup == Src.did[x] \in SeqSet(KidDids(S, p))
   IN IF PosOOB(seq, pos) THEN
           (IF dup THEN Refuse(S, AnyErr \cup {"UniqueConstraintError"}, why \o ":oob_dup")
            ELSE Result(TRUE, AnyErr, why \o ":oob", S.n + 1,
                        CopyNodeAt(S, p, Len(seq) + 1, Src, x, CopyKind(S, Src, x, k), deep)))
      ELSE IF at = 0 THEN Refuse(S, AnyErr \cup (IF dup THEN {"UniqueConstraintError"} ELSE {}), why \o ":badpos")
      ELSE IF dup THEN Refuse(S, {"UniqueConstraintError"}, why \o ":dup")
      ELSE LET S1 == CopyNodeAt(S, p, at, Src, x, CopyKind(S, Src, x, k), deep) IN
           Result(TRUE, NoErr, why, S.n + 1, S1)

(* add_child(Tree) / Tree.copy_to / Node.copy_to(add_self=False): copies of a child list, in order *)
DoAddList(S, p, Src, q, deep, pos, why, emptyErr) ==
   LET seq  == KidsOf(S, p)
       at   == PosIndex(S, p, seq, pos)
       srcs == KidsOf(Src, q)
       dup  == \E i \in 1..Len(srcs) : Src.did[srcs[i]] \in SeqSet(KidDids(S, p))
   IN IF srcs = <<>> THEN (IF emptyErr = {} THEN Result(TRUE, NoErr, why \o ":empty", 0, S)
                                               ELSE Refuse(S, emptyErr, why \o ":empty"))
      ELSE IF PosOOB(seq, pos) THEN      \* like DoAdd: carried out as an append (in the source's order) OR refused
           (IF dup THEN Refuse(S, AnyErr \cup {"UniqueConstraintError"}, why \o ":oob_dup")
            ELSE LET R == FoldLeft(LAMBDA acc, c :
                             [st |-> CopyNodeAt(acc.st, p, acc.at, Src, c, CopyKind(acc.st, Src, c, 0), deep),
                              at |-> acc.at + 1],
                             [st |-> S, at |-> Len(seq) + 1], srcs)
                 IN Result(TRUE, AnyErr, why \o ":oob", S.n + 1, R.st))
      ELSE IF at = 0 THEN Refuse(S, AnyErr \cup (IF dup THEN {"UniqueConstraintError"} ELSE {}), why \o ":badpos")
      ELSE IF dup THEN Refuse(S, {"UniqueConstraintError"}, why \o ":dup")
      ELSE LET R == FoldLeft(LAMBDA acc, c :
                       [st |-> CopyNodeAt(acc.st, p, acc.at, Src, c, CopyKind(acc.st, Src, c, 0), deep),
                        at |-> acc.at + 1],
                       [st |-> S, at |-> at], srcs)
           IN Result(TRUE, NoErr, why, S.n + 1, R.st)

----------------------------------------------------------------------------
(* move_to *)
DoMove(S, x, p, pos, why) ==
   IF S.typed THEN Refuse(S, {"NotImplementedError"}, why \o ":typed")
   ELSE IF p = x \/ p \in Desc(S, x) THEN Refuse(S, AnyErr, why \o ":own_branch")
   ELSE
   LET q    == S.par[x]
       S1   == SetKids(S, q, Without(KidsOf(S, q), x))
       seq  == KidsOf(S1, p)
       at   == PosIndex(S1, p, seq, pos)
       dup  == p # q /\ S.did[x] \in SeqSet(KidDids(S, p))
   IN IF PosOOB(seq, pos) \/ pos.t = "other" THEN     \* "other": a `before` that is neither bool, int nor node
           (IF dup THEN Refuse(S, AnyErr \cup {"UniqueConstraintError"}, why \o ":oob_dup")
            ELSE Result(TRUE, AnyErr, why \o ":oob", 0, [SetKids(S1, p, Append(seq, x)) EXCEPT !.par[x] = p]))
      ELSE IF at = 0 \/ (pos.t = "node" /\ pos.v = x)
        THEN Refuse(S, AnyErr \cup (IF dup THEN {"UniqueConstraintError"} ELSE {}), why \o ":badpos")
      ELSE IF dup THEN Refuse(S, {"UniqueConstraintError"}, why \o ":dup")
      ELSE Result(TRUE, NoErr, why, 0, [SetKids(S1, p, InsAt(seq, at, x)) EXCEPT !.par[x] = p])

----------------------------------------------------------------------------
(* remove / remove_children / clear *)
RECURSIVE Splice(_, _, _, _)
Splice(S, V, keep, seq) ==
   Flat([i \in 1..Len(seq) |->
            IF seq[i] \in V THEN (IF keep THEN Splice(S, V, keep, S.kids[seq[i]]) ELSE <<>>)
            ELSE <<seq[i]>>])
(* rebuild parent links from the child lists of reachable nodes and unregister everything that
   became unreachable (in post-order of the old tree, like remove_children does) *)
Relink(S0, S1) ==
   LET R  == Reach(S1)
       P  == [i \in 1..S1.n |-> IF i \notin R THEN S1.par[i]
                                 ELSE IF i \in SeqSet(S1.top) THEN 0
                                 ELSE CHOOSE q \in R : i \in SeqSet(S1.kids[q])]
       S2 == [S1 EXCEPT !.par = P]
       gone == SelectSeq(Post(S0, 0), LAMBDA i : i \notin R)
   IN UnregisterAll(S2, gone)
DoRemove(S, x, keep, clones, why) ==
   LET V  == IF clones THEN {i \in Reach(S) : S.did[i] = S.did[x]} ELSE {x}
       K  == [i \in 1..S.n |-> IF i \in V THEN <<>> ELSE Splice(S, V, keep, S.kids[i])]
       S1 == [S EXCEPT !.kids = K, !.top = Splice(S, V, keep, S.top)]
   IN Guard(S, why, 0, Relink(S, S1))
DoRemoveChildren(S, p, why) ==
   Result(TRUE, NoErr, why, 0, Relink(S, SetKids(S, p, <<>>)))

----------------------------------------------------------------------------
(* sort_children / sort: stable sort by rank[dat], Python `reverse` semantics (stability kept) *)
RECURSIVE InsertSorted(_, _, _, _)
InsertSorted(s, x, key, rev) ==   \* insert x after all elements that do not sort strictly after it
   IF s = <<>> THEN <<x>>
   ELSE LET h == Head(s) IN
        IF (IF rev THEN key[x] > key[h] ELSE key[x] < key[h]) THEN <<x>> \o s
        ELSE <<h>> \o InsertSorted(Tail(s), x, key, rev)
StableSort(s, key, rev) == FoldLeft(LAMBDA acc, x : InsertSorted(acc, x, key, rev), <<>>, s)
RECURSIVE SortRec(_, _, _, _, _)
SortRec(S, p, rank, rev, deep) ==
   LET sorted == StableSort(KidsOf(S, p), [i \in 1..S.n |-> rank[S.dat[i]]], rev)
       S1 == SetKids(S, p, sorted)
   IN IF deep THEN FoldLeft(LAMBDA acc, c : SortRec(acc, c, rank, rev, TRUE), S1, sorted) ELSE S1
DoSort(S, p, rank, rev, deep, why) == Result(TRUE, NoErr, why, 0, SortRec(S, p, rank, rev, deep))

----------------------------------------------------------------------------
(* set_data(data, data_id=, with_clones=) ; d = 0 means data None, xid = 0 means data_id None;
   wc \in {"none","true","false"} *)
Rekey(S, i, x) == [S EXCEPT !.idx = IdxAdd(IdxDel(@, S.did[i], i), x, i), !.did[i] = x]
DoSetData(S, x, d, xid, wc, why) ==
   IF d = 0 /\ xid = 0 THEN Refuse(S, {"ValueError"}, why \o ":missing")
   ELSE
   LET group == {i \in Reach(S) : S.did[i] = S.did[x]}
       isClone == Cardinality(group) > 1
       newDid == IF xid # 0 THEN xid ELSE IF d # 0 /\ d # S.dat[x] THEN DefDid(d) ELSE S.did[x]
       \* passing the node's own current data object means "data unchanged" (only the id may change)
       newDat(i) == IF d # 0 /\ d # S.dat[x] THEN d ELSE S.dat[i]
       T == IF wc = "true" THEN group ELSE {x}
       S1 == FoldLeft(LAMBDA acc, i : [Rekey(acc, i, newDid) EXCEPT !.dat[i] = newDat(i)],
                      S, SetToSortSeq(T, <))
   IN IF isClone /\ wc = "none" THEN Refuse(S, {"AmbiguousMatchError"}, why \o ":ambiguous")
      ELSE Guard(S, why, 0, S1)

----------------------------------------------------------------------------
(* metadata: set_meta(key, value) (value 0 = None removes), clear_meta(key|0), update_meta(map, replace) *)
DoSetMeta(S, x, k, v, why) == Result(TRUE, NoErr, why, 0, [S EXCEPT !.meta[x][k] = v])
DoClearMeta(S, x, k, why) ==
   Result(TRUE, NoErr, why, 0, IF k = 0 THEN [S EXCEPT !.meta[x] = EmptyMeta] ELSE [S EXCEPT !.meta[x][k] = 0])
DoUpdateMeta(S, x, m, replace, why) ==
   Result(TRUE, NoErr, why, 0,
          [S EXCEPT !.meta[x] = [k \in 1..MetaKeys |-> IF m[k] # 0 THEN m[k] ELSE IF replace THEN 0 ELSE @[k]]])

----------------------------------------------------------------------------
(* filter: verdict per node v[i] \in {"T","F","skip","skipKeep","select","stop"} (C08, DESIGN A.2) *)
RECURSIVE ScanNode(_, _, _), ScanKids(_, _, _, _)
ScanKids(S, seq, i, v) ==
   IF i > Len(seq) THEN [keep |-> {}, called |-> <<>>, stop |-> FALSE]
   ELSE LET r == ScanNode(S, seq[i], v) IN
        IF r.stop THEN r
        ELSE LET rest == ScanKids(S, seq, i + 1, v) IN
             [keep |-> r.keep \cup rest.keep, called |-> r.called \o rest.called, stop |-> rest.stop]
ScanNode(S, c, v) ==
   CASE v[c] = "stop"     -> [keep |-> {}, called |-> <<c>>, stop |-> TRUE]
     [] v[c] = "T"        -> LET r == ScanKids(S, S.kids[c], 1, v) IN
                             [keep |-> {c} \cup r.keep, called |-> <<c>> \o r.called, stop |-> r.stop]
     [] v[c] = "F"        -> LET r == ScanKids(S, S.kids[c], 1, v) IN
                             [keep |-> IF r.keep = {} THEN {} ELSE {c} \cup r.keep,
                              called |-> <<c>> \o r.called, stop |-> r.stop]
     [] v[c] = "skip"     -> [keep |-> {}, called |-> <<c>>, stop |-> FALSE]
     [] v[c] = "skipKeep" -> [keep |-> {c}, called |-> <<c>>, stop |-> FALSE]
     [] v[c] = "select"   -> [keep |-> {c} \cup Desc(S, c), called |-> <<c>>, stop |-> FALSE]
FilterScan(S, p, v) == ScanKids(S, KidsOf(S, p), 1, v)
(* in-place filter of the branch below p (p = 0: whole tree) *)
DoFilter(S, p, v, why) ==
   LET K  == FilterScan(S, p, v).keep
       D  == Desc(S, p)
       ks == [i \in 1..S.n |-> IF i \in D \ K THEN <<>> ELSE SelectSeq(S.kids[i], LAMBDA c : c \notin D \/ c \in K)]
       S1 == [S EXCEPT !.kids = ks, !.top = SelectSeq(S.top, LAMBDA c : c \notin D \/ c \in K)]
   IN Result(TRUE, NoErr, why, 0, Relink(S, S1))

----------------------------------------------------------------------------
(* tree[key] resolution (C09) used by del: key = [t |-> "nid"|"did"|"data"|"node", v] ; returns
   [ok, errs, ret] *)
GetItem(S, key) ==
   LET M == CASE key.t = "nid"  -> IF key.v \in S.reg THEN {key.v} ELSE {}
              [] key.t = "did"  -> IdxGet(S.idx, key.v)
              [] key.t = "data" -> IdxGet(S.idx, DefDid(key.v))
              [] key.t = "node" -> {}
   IN IF key.t = "node" THEN [ok |-> FALSE, errs |-> {"ValueError"}, ret |-> 0]
      ELSE IF M = {} THEN [ok |-> FALSE, errs |-> {"KeyError"}, ret |-> 0]
      ELSE IF Cardinality(M) > 1 THEN [ok |-> FALSE, errs |-> {"AmbiguousMatchError"}, ret |-> 0]
      ELSE [ok |-> TRUE, errs |-> {}, ret |-> CHOOSE i \in M : TRUE]

----------------------------------------------------------------------------
(* the total step function.  op is a record with field `name` and per-name fields. *)
NextSibPos(S, x) ==   \* position "before the next sibling of x" (append if x is last)
   LET seq == KidsOf(S, S.par[x]) i == IndexOf(seq, x) IN
   IF i = Len(seq) THEN PosNone ELSE [t |-> "node", v |-> seq[i + 1]]
FirstChildPos(S, p) == IF KidsOf(S, p) = <<>> THEN PosNone ELSE [t |-> "node", v |-> KidsOf(S, p)[1]]
SrcOf(W, op) == IF op.src = "S" THEN W.s ELSE W.t

Apply(W, op) ==
   LET S == W.t IN
   CASE op.name = "add_child"       ->
            IF op.k = -1 THEN Refuse(S, AnyErr, "add:bad_kind")      \* kind= of an unsupported type (typed trees)
            ELSE IF op.xid = -1 THEN Refuse(S, AnyErr, "add:bad_data_id")   \* data_id= of an unhashable type
            ELSE DoAdd(S, op.p, op.d, op.xid, op.k, op.pos, "add")
     [] op.name = "add_child_nid"   ->   \* add_child(data, node_id=<the node_id of existing node op.x>): node ids stay unique
            Refuse(S, AnyErr, "add:dup_node_id")
     [] op.name = "append_child"    -> DoAdd(S, op.p, op.d, op.xid, op.k, PosNone, "append_child")
     [] op.name = "prepend_child"   -> DoAdd(S, op.p, op.d, op.xid, op.k, FirstChildPos(S, op.p), "prepend_child")
     [] op.name = "prepend_sibling" ->   \* typed: "a new node of same kind"
            DoAdd(S, S.par[op.x], op.d, op.xid, S.knd[op.x], [t |-> "node", v |-> op.x], "prepend_sibling")
     [] op.name = "append_sibling"  ->
            DoAdd(S, S.par[op.x], op.d, op.xid, S.knd[op.x], NextSibPos(S, op.x), "append_sibling")
     [] op.name = "add_node"        ->   \* p.add_child(node x of tree src, deep=, before=) / x.copy_to(p, ...)
            IF op.src = "S" /\ W.s.typed # S.typed THEN Refuse(S, AnyErr, "add_node:typed_mismatch")
            \* ids for the copy: "only allowed for single nodes, not for deep copies"; the copy is a clone, so a
            \* data_id other than the source's is a conflict (nid / xidc are optional fields, with pos = none only)
            ELSE IF op.deep /\ ("nid" \in DOMAIN op \/ "xidc" \in DOMAIN op)
                 THEN Refuse(S, {"ValueError"}, "add_node:id_for_deep_copy")
            ELSE IF "xidc" \in DOMAIN op /\ op.xidc # SrcOf(W, op).did[op.x]
                 THEN Refuse(S, {"UniqueConstraintError"}, "add_node:data_id_conflict")
            ELSE DoAddNode(S, op.p, SrcOf(W, op), op.x, op.k, op.deep, op.pos, "add_node")
     [] op.name = "add_tree"        ->   \* p.add_child(tree S, before=, deep=) ; returns a node (unspecified which)
            DoAddList(S, op.p, W.s, 0, op.deep, op.pos, "add_tree", {})
     [] op.name = "add_empty_tree"  ->   \* p.add_child(<a tree without nodes>): nothing to add
            DoAddList(S, op.p, EmptyTree(S.typed), 0, op.deep, op.pos, "add_tree", {})
     [] op.name = "empty_tree_copy_to" ->   \* <a tree without nodes>.copy_to(p): refused (or nothing happens)
            Result(TRUE, AnyErr, "tree_copy_to:empty", 0, S)
     [] op.name = "tree_copy_to"    ->   \* S.copy_to(p, deep=)
            DoAddList(S, op.p, W.s, 0, op.deep, PosNone, "tree_copy_to", AnyErr)
     [] op.name = "copy_children_to" ->  \* x.copy_to(p, add_self=False, deep=)
            DoAddList(S, op.p, SrcOf(W, op), op.x, op.deep, PosNone, "copy_children_to", {"ValueError"})
     [] op.name = "move_to"         -> DoMove(S, op.x, op.p, op.pos, "move")
     [] op.name = "move_foreign"    -> Refuse(S, {"NotImplementedError"}, "move:cross_tree")
     [] op.name = "remove"          -> DoRemove(S, op.x, op.keep, op.clones, "remove")
     [] op.name = "remove_children" -> DoRemoveChildren(S, op.p, "remove_children")
     [] op.name = "clear"           -> DoRemoveChildren(S, 0, "clear")
     [] op.name = "del"             -> LET g == GetItem(S, op.key) IN
                                       IF g.ok THEN DoRemove(S, g.ret, FALSE, FALSE, "del")
                                       ELSE Refuse(S, g.errs, "del:lookup")
     [] op.name = "sort_children"   -> DoSort(S, op.p, op.rank, op.rev, op.deep, "sort")
     [] op.name = "set_data"        -> IF op.xid = -1 THEN Refuse(S, AnyErr, "set_data:bad_data_id")
                                       ELSE DoSetData(S, op.x, op.d, op.xid, op.wc, "set_data")
     [] op.name = "rename"          -> IF op.isstr THEN DoSetData(S, op.x, op.d, 0, "none", "rename")
                                       ELSE Refuse(S, {"ValueError"}, "rename:nonstr")
     [] op.name = "set_meta"        -> DoSetMeta(S, op.x, op.key, op.val, "set_meta")
     [] op.name = "clear_meta"      -> DoClearMeta(S, op.x, op.key, "clear_meta")
     [] op.name = "update_meta"     -> DoUpdateMeta(S, op.x, op.m, op.replace, "update_meta")
     [] op.name = "filter"          -> DoFilter(S, op.p, op.v, "filter")
     [] op.name = "stale"           ->   \* any call made through the handle of a node that was removed earlier
            \* (removed nodes are "neither reachable nor counted", C01): whatever it answers - the library does not
            \* promise an error class, and read-like calls succeed - the tree is not affected by it
            Result(TRUE, AnyErr, "stale:" \o op.what, 0, S)

----------------------------------------------------------------------------
(* canonical renumbering: live nodes get ids 1..m in pre-order (drops dead ids) *)
Compact(S) ==
   LET pre == Pre(S, 0)
       m   == Len(pre)
       new(i) == IndexOf(pre, i)
       mapseq(s) == [j \in 1..Len(s) |-> new(s[j])]
   IN [n |-> m,
       par  |-> [j \in 1..m |-> IF S.par[pre[j]] = 0 THEN 0 ELSE new(S.par[pre[j]])],
       kids |-> [j \in 1..m |-> mapseq(S.kids[pre[j]])],
       top  |-> mapseq(S.top),
       dat  |-> [j \in 1..m |-> S.dat[pre[j]]],
       did  |-> [j \in 1..m |-> S.did[pre[j]]],
       knd  |-> [j \in 1..m |-> S.knd[pre[j]]],
       meta |-> [j \in 1..m |-> S.meta[pre[j]]],
       reg  |-> {new(i) : i \in S.reg \cap SeqSet(pre)},
       idx  |-> [d \in DOMAIN S.idx |-> {new(i) : i \in S.idx[d] \cap SeqSet(pre)}],
       typed |-> S.typed]

(* frame property of a successful result (C04, guards the spec itself): nodes present before and
   after keep data/id/kind unless the operation is a data/meta edit; untouched siblings keep order *)
KeepsRelOrder(s1, s2) ==   \* common elements appear in the same relative order
   LET c == SeqSet(s1) \cap SeqSet(s2) IN
   SelectSeq(s1, LAMBDA y : y \in c) = SelectSeq(s2, LAMBDA y : y \in c)
=============================================================================
