------------------------------- MODULE MC_Gen -------------------------------
(***************************************************************************)
(* A nondeterministic tree generator for a small fixed structure           *)
(* definition: nodes are expanded in pre-order; per relation (in           *)
(* definition order) a count is chosen from its range, per merged          *)
(* attribute a value from its spec (or absence if optional).  Every        *)
(* completely generated tree must satisfy NutreeGen!Conforms; a mutated    *)
(* generator (BadGen) must be rejected (non-vacuity of the predicate).     *)
(***************************************************************************)
EXTENDS NutreeGen

CONSTANTS BadGen       \* "none" | "count" | "order" | "idx" | "merge"
VARIABLES G, pending, attq
vars == <<G, pending, attq>>

Sp(k, a, b, opt) == [k |-> k, a |-> a, b |-> b, opt |-> opt]
(* keys: 1 = type tag, 2 = idx, 3 = hier, 4 = icon (type default), 5 = random number, 6 = optional flag *)
Def == [glob  |-> << <<6, Sp("value", 1, 0, TRUE)>>, <<4, Sp("fixed", 90, 0, FALSE)>> >>,
        types |-> << <<1, << <<4, Sp("fixed", 91, 0, FALSE)>> >> >>,
                     <<2, << <<4, Sp("fixed", 92, 0, FALSE)>>, <<5, Sp("range", 1, 2, FALSE)>> >> >> >>,
        rels  |-> << <<0, << [type |-> 1, lo |-> 1, hi |-> 2, zero |-> FALSE,
                              layer |-> << <<1, Sp("fixed", 1, 0, FALSE)>>, <<2, Sp("idx", 0, 0, FALSE)>> >>] >> >>,
                     <<1, << [type |-> 2, lo |-> 1, hi |-> 1, zero |-> TRUE,
                              layer |-> << <<1, Sp("fixed", 2, 0, FALSE)>>, <<3, Sp("hier", 0, 0, FALSE)>>,
                                           <<4, Sp("fixed", 99, 0, FALSE)>> >>],
                             [type |-> 3, lo |-> 0, hi |-> 1, zero |-> FALSE,
                              layer |-> << <<1, Sp("fixed", 3, 0, FALSE)>>, <<2, Sp("idx", 0, 0, FALSE)>> >>] >> >> >>]

Empty == [n |-> 0, par |-> <<>>, kids |-> <<>>, top |-> <<>>, typ |-> <<>>, att |-> <<>>]
Init == G = Empty /\ pending = <<0>> /\ attq = <<>>

Counts(r) == (r.lo..r.hi) \cup (IF r.zero THEN {0} ELSE {})
ValChoices(G1, x, sp) ==
   (CASE sp.k = "fixed" -> {<<sp.a>>}
      [] sp.k = "idx" -> {<<IdxOf(G1, x) + (IF BadGen = "idx" THEN 1 ELSE 0)>>}
      [] sp.k = "hier" -> {HierOf(G1, x)}
      [] sp.k = "range" -> {<<v>> : v \in sp.a..sp.b}
      [] sp.k = "value" -> {<<sp.a>>}
      [] sp.k = "present" -> {<<1>>})
   \cup (IF sp.opt THEN {<<>>} ELSE {})      \* <<>> = absent

(* append cs[i] children of type rs[i].type for each relation, in definition order (BadGen "order": reversed) *)
AddKids(G0, p, rs, cs) ==
   LET ord == IF BadGen = "order" THEN [i \in 1..Len(rs) |-> Len(rs) + 1 - i] ELSE [i \in 1..Len(rs) |-> i]
       types == FoldLeft(LAMBDA acc, i : acc \o [j \in 1..cs[ord[i]] |-> rs[ord[i]].type], <<>>, [i \in 1..Len(rs) |-> i])
       m == Len(types)
       ids == [j \in 1..m |-> G0.n + j]
   IN [n |-> G0.n + m,
       par |-> G0.par \o [j \in 1..m |-> p],
       kids |-> IF p = 0 THEN G0.kids \o [j \in 1..m |-> <<>>]
                ELSE [[q \in 1..G0.n |-> IF q = p THEN ids ELSE G0.kids[q]] \o [j \in 1..m |-> <<>>] EXCEPT ![p] = ids],
       top |-> IF p = 0 THEN ids ELSE G0.top,
       typ |-> G0.typ \o types,
       att |-> G0.att \o [j \in 1..m |-> <<>>]]

KeysSeq(Def0, t, rl) == SetToSortSeq(MergedKeys(Def0, t, rl), <)
RelLayer(x) == LET rs == RelsOf(Def, TypeOf(G, G.par[x])) IN rs[CHOOSE i \in 1..Len(rs) : rs[i].type = G.typ[x]].layer
SpecOf(x, k) == IF BadGen = "merge" /\ k \in LayerKeys(TypeLayer(Def, G.typ[x]))
                THEN TypeLayer(Def, G.typ[x])[LayerGet(TypeLayer(Def, G.typ[x]), k)][2]   \* type default wins
                ELSE MergedSpec(Def, G.typ[x], RelLayer(x), k)
RECURSIVE AttOpts(_, _)
AttOpts(x, ks) ==
   IF ks = <<>> THEN {<<>>}
   ELSE LET k == Head(ks) IN
        {IF v = <<>> THEN r ELSE << <<k, v>> >> \o r : v \in ValChoices(G, x, SpecOf(x, k)), r \in AttOpts(x, Tail(ks))}

Expand ==
   /\ attq = <<>> /\ pending # <<>>
   /\ LET p == Head(pending)
          rs == RelsOf(Def, TypeOf(G, p))
      IN \E cs \in [1..Len(rs) -> 0..3] :
            /\ \A i \in 1..Len(rs) : cs[i] \in Counts(rs[i]) \/ (BadGen = "count" /\ cs[i] = rs[i].hi + 1)
            /\ G' = AddKids(G, p, rs, cs)
            /\ attq' = [j \in 1..(G'.n - G.n) |-> G.n + j]
            /\ pending' = Tail(pending) \o attq'
Attr ==
   /\ attq # <<>>
   /\ LET x == Head(attq) IN
      \E a \in AttOpts(x, KeysSeq(Def, G.typ[x], RelLayer(x))) :
         /\ G' = [G EXCEPT !.att[x] = a]
         /\ attq' = Tail(attq)
         /\ UNCHANGED pending
Done == pending = <<>> /\ attq = <<>> /\ UNCHANGED vars
Next == Expand \/ Attr \/ Done
Spec == Init /\ [][Next]_vars
AllConform == (pending = <<>> /\ attq = <<>>) => Conforms(G, Def)
Bounded == G.n <= 8
=============================================================================
