--------------------------- MODULE NutreeQueries ---------------------------
(***************************************************************************)
(* Read-only API of nutree as TLA+ operators over a tree state S of        *)
(* Nutree.tla: traversals and visit() (C06), searches and index access     *)
(* (C09), relationship queries (C10), kind-aware queries (C15), format()   *)
(* prefixes (C16), and the laws relating them (checked by TLC in           *)
(* MC_Shapes).  TraceQuery.tla evaluates logged answers of the real        *)
(* library against these operators.                                        *)
(***************************************************************************)
EXTENDS Nutree

Max2(a, b) == IF a > b THEN a ELSE b
Take(s, k) == IF k >= Len(s) THEN s ELSE SubSeq(s, 1, k)

----------------------------------------------------------------------------
(* C06: iterators (exclusive of the start node; add_self handled by Iter) *)
NextLevel(S, lv) == Flat([i \in 1..Len(lv) |-> S.kids[lv[i]]])
RECURSIVE LevelFrom(_, _, _, _)
LevelFrom(S, lv, rev, tog) ==
   IF lv = <<>> THEN <<>>
   ELSE (IF rev THEN Rev(lv) ELSE lv) \o LevelFrom(S, NextLevel(S, lv), IF tog THEN ~rev ELSE rev, tog)
Methods == {"pre", "post", "level", "level_rtl", "zigzag", "zigzag_rtl"}
Iter(S, m, n, self) ==
   LET body == CASE m = "pre"        -> Pre(S, n)
                 [] m = "post"       -> Post(S, n)
                 [] m = "level"      -> LevelFrom(S, KidsOf(S, n), FALSE, FALSE)
                 [] m = "level_rtl"  -> LevelFrom(S, KidsOf(S, n), TRUE, FALSE)
                 [] m = "zigzag"     -> LevelFrom(S, KidsOf(S, n), FALSE, TRUE)
                 [] m = "zigzag_rtl" -> LevelFrom(S, KidsOf(S, n), TRUE, TRUE)
   IN IF ~self THEN body ELSE IF m = "post" THEN body \o <<n>> ELSE <<n>> \o body

(* visit(): verdicts v[i] \in {"none","skip","stop"}; result = visited sequence, cut after the first stop *)
RECURSIVE VPreSeq(_, _, _)
VPreSeq(S, seq, v) ==
   IF seq = <<>> THEN <<>>
   ELSE LET c == Head(seq) IN
        <<c>> \o (IF v[c] = "skip" THEN <<>> ELSE VPreSeq(S, S.kids[c], v)) \o VPreSeq(S, Tail(seq), v)
RECURSIVE VLevelFrom(_, _, _)
VLevelFrom(S, lv, v) ==
   IF lv = <<>> THEN <<>>
   ELSE lv \o VLevelFrom(S, Flat([i \in 1..Len(lv) |-> IF v[lv[i]] = "skip" THEN <<>> ELSE S.kids[lv[i]]]), v)
CutAtStop(s, v) == LET stops == {i \in 1..Len(s) : v[s[i]] = "stop"} IN
                   IF stops = {} THEN s ELSE SubSeq(s, 1, Min(stops))
Visit(S, m, n, self, v) ==
   LET raw == CASE m = "pre"   -> IF self THEN <<n>> \o (IF v[n] = "skip" THEN <<>> ELSE VPreSeq(S, KidsOf(S, n), v))
                                  ELSE VPreSeq(S, KidsOf(S, n), v)
                [] m = "post"  -> Iter(S, "post", n, self)
                [] m = "level" -> IF self THEN <<n>> \o (IF v[n] = "skip" THEN <<>> ELSE VLevelFrom(S, KidsOf(S, n), v))
                                  ELSE VLevelFrom(S, KidsOf(S, n), v)
   IN CutAtStop(raw, v)
VisitStopped(S, m, n, self, v) == \E i \in SeqSet(Visit(S, m, n, self, v)) : v[i] = "stop"

----------------------------------------------------------------------------
(* C09: searches *)
Search(S, n, self, M, k) ==
   LET hits == SelectSeq(Iter(S, "pre", n, self), LAMBDA x : x \in M) IN
   IF k = 0 THEN hits ELSE Take(hits, k)
FindFirst(S, n, self, M) == LET h == Search(S, n, self, M, 1) IN IF h = <<>> THEN 0 ELSE h[1]

----------------------------------------------------------------------------
(* C10: relationship queries *)
Sibs(S, x) == KidsOf(S, S.par[x])
Idx(S, x) == IndexOf(Sibs(S, x), x)
RECURSIVE Height(_, _)
Height(S, p) == IF KidsOf(S, p) = <<>> THEN 0
                ELSE 1 + FoldLeft(LAMBDA acc, c : Max2(acc, Height(S, c)), 0, KidsOf(S, p))
AncTopDown(S, x) == Rev(AncSeq(S, x))
TopOf(S, x) == IF S.par[x] = 0 THEN x ELSE AncTopDown(S, x)[1]
Leaves(S, p) == {i \in Desc(S, p) : S.kids[i] = <<>>}
IsAnc(S, a, x) == a \in Anc(S, x)
CommonAnc(S, x, y) ==    \* nearest node containing both (self counts), 0 if none
   LET ax == <<x>> \o AncSeq(S, x)       \* bottom-up, including self
       ay == SeqSet(<<y>> \o AncSeq(S, y))
       c  == SelectSeq(ax, LAMBDA a : a \in ay)
   IN IF c = <<>> THEN 0 ELSE c[1]
Rel(S, x) ==
   LET sib == Sibs(S, x) i == Idx(S, x) IN
   [parent   |-> S.par[x],
    children |-> S.kids[x],
    sibs     |-> Without(sib, x),
    sibs_self |-> sib,
    first_sib |-> sib[1],
    last_sib  |-> sib[Len(sib)],
    prev     |-> IF i = 1 THEN 0 ELSE sib[i - 1],
    next     |-> IF i = Len(sib) THEN 0 ELSE sib[i + 1],
    index    |-> i - 1,
    depth    |-> Depth(S, x),
    height   |-> Height(S, x),
    top      |-> TopOf(S, x),
    anc      |-> AncTopDown(S, x),
    anc_self_bu |-> <<x>> \o AncSeq(S, x),
    path     |-> LET ids == AncTopDown(S, x) \o <<x>> IN [j \in 1..Len(ids) |-> S.dat[ids[j]]],
    path_noself |-> LET ids == AncTopDown(S, x) IN [j \in 1..Len(ids) |-> S.dat[ids[j]]],
    ndesc    |-> Cardinality(Desc(S, x)),
    nleaves  |-> Cardinality(Leaves(S, x)),
    is_top   |-> S.par[x] = 0,
    is_leaf  |-> S.kids[x] = <<>>,
    is_first |-> i = 1,
    is_last  |-> i = Len(sib),
    has_children |-> S.kids[x] # <<>>,
    first_child |-> IF S.kids[x] = <<>> THEN 0 ELSE S.kids[x][1],
    last_child  |-> IF S.kids[x] = <<>> THEN 0 ELSE S.kids[x][Len(S.kids[x])]]
RelFields == {"parent", "children", "sibs", "sibs_self", "first_sib", "last_sib", "prev", "next", "index", "depth",
              "height", "top", "anc", "anc_self_bu", "path", "path_noself", "ndesc", "nleaves", "is_top", "is_leaf", "is_first",
              "is_last", "has_children", "first_child", "last_child"}
(* up(level): 0 = the system root; -1 = ValueError (beyond the root) *)
Up(S, x, level) == LET chain == <<x>> \o AncSeq(S, x) \o <<0>> IN
                   IF level + 1 <= Len(chain) THEN chain[level + 1] ELSE -1

----------------------------------------------------------------------------
(* C15: kind-aware queries; kind 0 = ANY_KIND *)
OfKind(S, seq, k) == IF k = 0 THEN seq ELSE SelectSeq(seq, LAMBDA c : S.knd[c] = k)
FirstOf(seq) == IF seq = <<>> THEN 0 ELSE seq[1]
LastOf(seq) == IF seq = <<>> THEN 0 ELSE seq[Len(seq)]
TypedRel(S, x, any) ==
   LET k   == IF any THEN 0 ELSE S.knd[x]
       sib == OfKind(S, Sibs(S, x), k)
       i   == IndexOf(sib, x)
   IN [sibs      |-> Without(sib, x),
       sibs_self |-> sib,
       first_sib |-> sib[1],
       last_sib  |-> sib[Len(sib)],
       prev      |-> IF i = 1 THEN 0 ELSE sib[i - 1],
       next      |-> IF i = Len(sib) THEN 0 ELSE sib[i + 1],
       index     |-> i - 1,
       is_first  |-> i = 1,
       is_last   |-> i = Len(sib)]
TypedRelFields == {"sibs", "sibs_self", "first_sib", "last_sib", "prev", "next", "index", "is_first", "is_last"}
KindQ(S, p, k) ==
   LET c == OfKind(S, KidsOf(S, p), k) IN
   [children |-> c, first |-> FirstOf(c), last |-> LastOf(c), has |-> c # <<>>]

----------------------------------------------------------------------------
(* C16: format() prefixes as sequences of segment indexes:
   0 blank (ancestor is a last sibling), 1 bar, 2 last leaf, 3 mid leaf, 4 last parent, 5 mid parent *)
IsLastSib(S, x) == LastOf(Sibs(S, x)) = x
Prefix(S, x, lstrip) ==
   LET anc  == AncTopDown(S, x)
       m    == Len(anc)
       mid  == [j \in 1..m |-> IF IsLastSib(S, anc[j]) THEN 0 ELSE 1]
       kept == IF lstrip >= m THEN <<>> ELSE SubSeq(mid, lstrip + 1, m)
       own  == IF S.kids[x] # <<>> THEN (IF IsLastSib(S, x) THEN 4 ELSE 5) ELSE (IF IsLastSib(S, x) THEN 2 ELSE 3)
   IN IF m >= lstrip THEN kept \o <<own>> ELSE kept
FormatLines(S, start, self) == IF start = 0 THEN Pre(S, 0) ELSE Iter(S, "pre", start, self)
(* Tree.format: title => lstrip 0; title=False => lstrip 1.  Node.format: depth (+1 without add_self) *)
PrefixSeq(S, start, self, lstrip) ==
   LET ls == FormatLines(S, start, self) IN [i \in 1..Len(ls) |-> Prefix(S, ls[i], lstrip)]
NodeLStrip(S, start, self) == Depth(S, start) + (IF self THEN 0 ELSE 1)

(* the inverse: rebuild the shape from the prefix lengths *)
RECURSIVE ShapeFrom(_, _, _, _)
ShapeFrom(ds, lo, hi, d) ==
   LET P  == {i \in lo..hi : ds[i] = d}
       ps == SetToSortSeq(P, <)
   IN [c \in 1..Len(ps) |-> ShapeFrom(ds, ps[c] + 1, IF c < Len(ps) THEN ps[c + 1] - 1 ELSE hi, d + 1)]
RECURSIVE ShapeOf(_, _)
ShapeOf(S, p) == [i \in 1..Len(KidsOf(S, p)) |-> ShapeOf(S, KidsOf(S, p)[i])]

----------------------------------------------------------------------------
(* C17: graph exports.  Keys: with unique_nodes a graph node stands for a data_id (root: RootKey),
   otherwise for a tree node (root: 0).  One edge per tree node whose parent is part of the export. *)
Starts(S) == Live(S) \cup {0}
RootKey == -100
ExportKey(S, i, unique) == IF i = 0 THEN (IF unique THEN RootKey ELSE 0) ELSE (IF unique THEN S.did[i] ELSE i)
ExportMembers(S, start, self) == (IF self THEN {start} ELSE {}) \cup Desc(S, start)
ExportNodeKeys(S, start, self, unique) == {ExportKey(S, i, unique) : i \in ExportMembers(S, start, self)}
ExportEdges(S, start, self, unique) ==      \* sequence (one entry per tree node), in pre-order
   LET M == ExportMembers(S, start, self)
       cs == SelectSeq(Pre(S, start), LAMBDA n : S.par[n] \in M)
   IN [j \in 1..Len(cs) |-> <<ExportKey(S, S.par[cs[j]], unique), ExportKey(S, cs[j], unique), S.knd[cs[j]]>>]
SameBag(s1, s2) == Len(s1) = Len(s2) /\ \A e \in SeqSet(s1) \cup SeqSet(s2) : Count(s1, e) = Count(s2, e)
(* removing the root removes exactly the root node and the edges leaving it *)
LawExportRoot(S) == \A start \in Starts(S), unique \in BOOLEAN :
   LET w == ExportEdges(S, start, TRUE, unique) wo == ExportEdges(S, start, FALSE, unique) IN
   /\ \A j \in 1..Len(wo) : \E i \in 1..Len(w) : w[i] = wo[j]
   /\ Len(w) - Len(wo) = Len(KidsOf(S, start))
   /\ Len(w) = Cardinality(Desc(S, start))

----------------------------------------------------------------------------
(* C08: filter results.  FilterScan (Nutree.tla) is the operational scan; KeepDecl the declarative
   characterisation: accepted nodes, whole selected branches, and the ancestors (below the start) of both *)
FVerdicts == {"T", "F", "skip", "skipKeep", "select", "stop"}
RECURSIVE KeptForest(_, _, _)
KeptForest(S, K, seq) ==
   LET ks == SelectSeq(seq, LAMBDA c : c \in K) IN
   [i \in 1..Len(ks) |-> <<ks[i], KeptForest(S, K, S.kids[ks[i]])>>]
FilterKeep(S, p, v) == FilterScan(S, p, v).keep
FilterCalled(S, p, v) == FilterScan(S, p, v).called
AcceptedBy(S, p, v) ==
   LET C == SeqSet(FilterCalled(S, p, v)) IN
   {c \in C : v[c] \in {"T", "skipKeep"}} \cup UNION {{c} \cup Desc(S, c) : c \in {x \in C : v[x] = "select"}}
KeepDecl(S, p, v) ==
   LET A == AcceptedBy(S, p, v) IN A \cup UNION {{a \in Desc(S, p) : x \in Desc(S, a)} : x \in A}
LawFilter(S) == \A v \in [1..S.n -> FVerdicts] : \A p \in Starts(S) :
   LET K == FilterKeep(S, p, v) c == FilterCalled(S, p, v) IN
   /\ K = KeepDecl(S, p, v)
   /\ \A k \in K : S.par[k] = p \/ S.par[k] \in K                    \* closed under parents
   /\ NoDup(c) /\ SeqSet(c) \subseteq Desc(S, p)
   /\ \A i \in 1..Len(c) : v[c[i]] = "stop" => i = Len(c)             \* nothing is called after a stop
   /\ \A x \in SeqSet(c) : \A d \in Desc(S, x) : v[x] \in {"skip", "skipKeep", "select"} => d \notin SeqSet(c)

----------------------------------------------------------------------------
(* Laws (checked by TLC on every shape of MC_Shapes) *)
IsPerm(s, A) == Len(s) = Cardinality(A) /\ SeqSet(s) = A
NoSig(S) == [i \in 0..S.n |-> "none"]

LawIterPerm(S) == \A n \in Starts(S), m \in Methods : IsPerm(Iter(S, m, n, FALSE), Desc(S, n))
LawPreParentFirst(S) == \A n \in Starts(S) : LET s == Pre(S, n) IN
   \A i, j \in 1..Len(s) : (S.par[s[j]] = s[i]) => i < j
LawPostChildrenFirst(S) == \A n \in Starts(S) : LET s == Post(S, n) IN
   \A i, j \in 1..Len(s) : (S.par[s[j]] = s[i]) => j < i
LawLevelSorted(S) == \A n \in Starts(S), m \in {"level", "level_rtl", "zigzag", "zigzag_rtl"} :
   LET s == Iter(S, m, n, FALSE) IN \A i, j \in 1..Len(s) : i < j => Depth(S, s[i]) <= Depth(S, s[j])
LawLevelLeftRight(S) == \A n \in Starts(S) :    \* within a level: left-to-right = pre-order positions ascending
   LET s == Iter(S, "level", n, FALSE) p == Pre(S, n) IN
   \A i, j \in 1..Len(s) : (i < j /\ Depth(S, s[i]) = Depth(S, s[j])) => IndexOf(p, s[i]) < IndexOf(p, s[j])
LawRtlMirrors(S) == \A n \in Starts(S) :
   LET a == Iter(S, "level", n, FALSE) b == Iter(S, "level_rtl", n, FALSE) p == Pre(S, n) IN
   \A i, j \in 1..Len(b) : (i < j /\ Depth(S, b[i]) = Depth(S, b[j])) => IndexOf(p, b[i]) > IndexOf(p, b[j])
LawZigZag(S) == \A n \in Starts(S) :
   LET z == Iter(S, "zigzag", n, FALSE) zr == Iter(S, "zigzag_rtl", n, FALSE) p == Pre(S, n) d0 == Depth(S, n) IN
   /\ \A i, j \in 1..Len(z) : (i < j /\ Depth(S, z[i]) = Depth(S, z[j])) =>
         (IF (Depth(S, z[i]) - d0) % 2 = 1 THEN IndexOf(p, z[i]) < IndexOf(p, z[j]) ELSE IndexOf(p, z[i]) > IndexOf(p, z[j]))
   /\ \A i, j \in 1..Len(zr) : (i < j /\ Depth(S, zr[i]) = Depth(S, zr[j])) =>
         (IF (Depth(S, zr[i]) - d0) % 2 = 1 THEN IndexOf(p, zr[i]) > IndexOf(p, zr[j]) ELSE IndexOf(p, zr[i]) < IndexOf(p, zr[j]))
LawVisitNoSignal(S) == \A n \in Starts(S), m \in {"pre", "post", "level"}, self \in BOOLEAN :
   (n # 0 \/ ~self) => Visit(S, m, n, self, NoSig(S)) = Iter(S, m, n, self)
LawSkip(S) == \A n \in Starts(S), m \in {"pre", "level"} : \A x \in Desc(S, n) :
   LET v == [NoSig(S) EXCEPT ![x] = "skip"]
       s == Visit(S, m, n, FALSE, v)
   IN s = SelectSeq(Iter(S, m, n, FALSE), LAMBDA y : y \notin Desc(S, x))
LawStop(S) == \A n \in Starts(S), m \in {"pre", "post", "level"} : \A x \in Desc(S, n) :
   LET v == [NoSig(S) EXCEPT ![x] = "stop"]
       s == Visit(S, m, n, FALSE, v)
       full == Iter(S, m, n, FALSE)
   IN s = SubSeq(full, 1, Len(s)) /\ s[Len(s)] = x

LawRelConsistent(S) == \A x \in Live(S) :
   LET r == Rel(S, x) IN
   /\ r.depth = Len(r.anc) + 1
   /\ (r.prev # 0 => Rel(S, r.prev).next = x) /\ (r.next # 0 => Rel(S, r.next).prev = x)
   /\ r.sibs_self[r.index + 1] = x
   /\ r.is_first = (r.prev = 0) /\ r.is_last = (r.next = 0)
   /\ r.ndesc >= r.nleaves /\ (r.is_leaf <=> r.ndesc = 0) /\ (r.has_children <=> ~r.is_leaf)
   /\ (r.is_top <=> r.parent = 0) /\ r.top = r.anc_self_bu[Len(r.anc_self_bu)] /\ Len(r.path) = r.depth
   /\ r.height = (IF Desc(S, x) = {} THEN 0
                   ELSE LET far == CHOOSE y \in Desc(S, x) : \A z \in Desc(S, x) : Depth(S, z) <= Depth(S, y)
                        IN Depth(S, far) - Depth(S, x))
   /\ \A y \in Live(S) : (IsAnc(S, x, y) <=> x \in SeqSet(Rel(S, y).anc))
   /\ \A y \in Live(S) : LET c == CommonAnc(S, x, y) IN
         /\ c = CommonAnc(S, y, x)
         /\ (c # 0 => (c = x \/ IsAnc(S, c, x)) /\ (c = y \/ IsAnc(S, c, y)))
         /\ (c = 0 <=> TopOf(S, x) # TopOf(S, y))
LawTreeHeight(S) == Height(S, 0) = (IF Live(S) = {} THEN 0 ELSE Depth(S, CHOOSE x \in Live(S) : \A y \in Live(S) : Depth(S, y) <= Depth(S, x)))

LawTyped(S) == \A x \in Live(S) :   \* any_kind variants equal the untyped queries
   LET r == Rel(S, x) t == TypedRel(S, x, TRUE) IN
   /\ t.sibs = r.sibs /\ t.sibs_self = r.sibs_self /\ t.first_sib = r.first_sib /\ t.last_sib = r.last_sib
   /\ t.prev = r.prev /\ t.next = r.next /\ t.index = r.index /\ t.is_first = r.is_first /\ t.is_last = r.is_last
   /\ KindQ(S, x, 0).children = r.children

LawPrefix(S) == \A start \in Starts(S), self \in BOOLEAN :
   LET ls == FormatLines(S, start, self)
       ll == IF start = 0 THEN (IF self THEN 0 ELSE 1) ELSE NodeLStrip(S, start, self)
       px == PrefixSeq(S, start, self, ll)
       ds == [i \in 1..Len(px) |-> Len(px[i])]
       base == IF Len(ds) = 0 THEN 0 ELSE ds[1]
   IN
   /\ ShapeFrom(ds, 1, Len(ds), base) = (IF start # 0 /\ self THEN << ShapeOf(S, start) >> ELSE ShapeOf(S, start))
   /\ \A i \in 1..Len(ls) : px[i] # <<>> =>
        LET o == px[i][Len(px[i])] IN
        /\ (o \in {2, 4}) = IsLastSib(S, ls[i])
        /\ (o \in {4, 5}) = (S.kids[ls[i]] # <<>>)
        /\ \A j \in 1..(Len(px[i]) - 1) :
              LET a == AncTopDown(S, ls[i])[Len(AncTopDown(S, ls[i])) - (Len(px[i]) - 1) + j] IN
              (px[i][j] = 0) = IsLastSib(S, a)
=============================================================================
