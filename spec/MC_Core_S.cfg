SPECIFICATION Spec
CONSTANTS
  MaxNodes = 3
  D = 2
  Typed = FALSE
  Kinds = {0}
  Xids = {0}
  MetaVals = 0
  MetaKeys = 1
  OpNames = {"add", "badpos", "add_node", "add_tree", "move", "remove", "sort", "set_data", "filter"}
  EmitOn = FALSE
  DefDid <- DefDidHash
VIEW View
INVARIANT InvWellFormed
INVARIANT InvIndexExact
INVARIANT InvSiblingUnique
INVARIANT InvBound
INVARIANT RefusalFrame
INVARIANT Frame
ACTION_CONSTRAINT Emit
CHECK_DEADLOCK FALSE
