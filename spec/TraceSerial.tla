---------------------------- MODULE TraceSerial ----------------------------
(***************************************************************************)
(* code -> spec for the serialised forms (C05, C12, C14): records          *)
(* {id, st, obs} as in TraceQuery; observations:                           *)
(*   saved      the node list of a written file, decoded by the harness    *)
(*              with exactly the maps the file's header declares           *)
(*   roundtrip  canonical content of load(save(tree))                      *)
(*   load_ext   canonical content of load(document written by the          *)
(*              independent encoder from TLC's Encode(S)), or the error    *)
(*   dictlist   to_dict_list() normalised to <<d, xid, children>>          *)
(*   from_dict  canonical content of from_dict(to_dict_list())             *)
(***************************************************************************)
EXTENDS NutreeSerial, Json, IOUtils

VARIABLE dummy
Recs == JsonDeserialize(IOEnv.TRACE_FILE)

LoadState(j) == Derive([n |-> j.n, par |-> j.par, kids |-> j.kids, top |-> j.top, dat |-> j.dat,
                        did |-> j.did, knd |-> j.knd, meta |-> j.meta, reg |-> {}, idx |-> <<>>,
                        typed |-> j.typed])
Say(cond, id, prop, clause, why) == cond \/ PrintT(<<"MISMATCH", id, prop, clause, why>>)

EntryEq(o, e) == o.pp = e.pp /\ o.ref = e.ref /\ (e.ref # 0 \/ (o.d = e.d /\ o.xid = e.xid /\ o.k = e.k))

CheckObs(S, id, o) ==
   LET a == o.a why == ToString(o.a) IN
   CASE o.q = "saved" ->
          LET L == Encode(S) IN
          \* a.partial: the caller's value map does not list a value that occurs - the writer may refuse (any error),
          \* but a document it does write must still decode, by the header's maps alone, to the tree
          /\ Say(o.r.s = "ok" \/ ("partial" \in DOMAIN a /\ a.partial), id, "C12", "save.status:" \o o.r.s, why)
          /\ (o.r.s = "ok" =>
                /\ Say(Len(o.r.v.list) = Len(L), id, "C12", "layout.length", why)
                /\ (Len(o.r.v.list) = Len(L) =>
                      /\ Say(\A i \in 1..Len(L) : o.r.v.list[i].pp = L[i].pp, id, "C12", "layout.parent_position", why)
                      /\ Say(\A i \in 1..Len(L) : o.r.v.list[i].ref = L[i].ref, id, "C12", "layout.clone_reference", why)
                      /\ Say(\A i \in 1..Len(L) : EntryEq(o.r.v.list[i], L[i]), id, "C12", "layout.payload", why)
                      /\ Say(\A i \in 1..Len(L) : L[i].ref = 0 =>
                               o.r.v.list[i].bare = ((\E j \in 1..Len(a.strs) : a.strs[j] = L[i].d) /\ ~S.typed /\ L[i].xid = 0),
                            id, "C12", "layout.bare_string", why))    \* a.strs: the data values that are plain strings
                /\ Say(o.r.v.generator /\ o.r.v.version, id, "C12", "header.generator_version", why)
                /\ Say(o.r.v.key_map_declared = a.key_map_used, id, "C12", "header.key_map", why)
                /\ Say(o.r.v.value_map_declared = a.value_map_used, id, "C12", "header.value_map", why)
                /\ Say(o.r.v.meta_ok, id, "C12", "header.user_meta", why)
                /\ Say(o.r.v.keys_short, id, "C12", "layout.keys_or_values_not_shortened_as_declared", why)
                /\ Say(o.r.v.args_same, id, "C12", "save.arguments_modified", why))
     [] o.q = "roundtrip" ->
          /\ Say(o.r.s = "ok", id, "C05", "roundtrip.status:" \o o.r.s, why)
          /\ (o.r.s = "ok" =>
                /\ Say(o.r.v.canon = Canon(S), id, "C05", "roundtrip.content", why)
                /\ Say(o.r.v.cls, id, "C05", "roundtrip.class", why)
                /\ Say(o.r.v.meta_ok, id, "C05", "roundtrip.file_meta", why)
                /\ Say(o.r.v.src_same, id, "C05", "roundtrip.source_changed", why)
                \* the option dicts belong to the caller (the same dict may be passed for the next tree)
                /\ Say(o.r.v.args_same, id, "C05", "roundtrip.arguments_modified", why))
     [] o.q = "load_ext" ->
          IF a.expect = "ok"
          THEN /\ Say(o.r.s = "ok", id, "C12", "load_ext.status:" \o o.r.s, why)
               /\ (o.r.s = "ok" => Say(o.r.v.canon = Canon(S), id, "C12", "load_ext.content:" \o a.doc, why))
          ELSE Say(o.r.s = a.expect, id, "C12", "load_ext.rejects:" \o a.doc \o ":" \o o.r.s, why)
     [] o.q = "dup_route" ->     \* C03: a document whose decoded tree would hold duplicate siblings must be refused
          Say(o.r.s = "UniqueConstraintError", id, "C03", "dup_not_refused:" \o a.route \o ":" \o o.r.s, why)
     [] o.q = "dictlist" ->
          Say(o.r.s = "ok" /\ o.r.v = (IF "empty" \in DOMAIN a THEN <<>> ELSE ToDictList(S)), id, "C14",
              "dictlist:" \o a.via \o ":" \o o.r.s, why)
     [] o.q = "from_dict" ->
          Say(o.r.s = "ok" /\ o.r.v = DropKinds(Canon(S)), id, "C14", "from_dict:" \o a.via \o ":" \o o.r.s, why)

CheckRec(e) == LET S == LoadState(e.st) IN \A j \in 1..Len(e.obs) : CheckObs(S, e.id, e.obs[j])
NObs == FoldLeft(LAMBDA acc, e : acc + Len(e.obs), 0, Recs)
ASSUME \A i \in 1..Len(Recs) : CheckRec(Recs[i])
ASSUME PrintT(<<"CHECKED", NObs>>)
Init == dummy = 0
Next == UNCHANGED dummy
=============================================================================
