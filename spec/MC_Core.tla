------------------------------ MODULE MC_Core ------------------------------
(***************************************************************************)
(* State machine over Nutree!Apply: every public mutating operation with   *)
(* every argument choice is one transition.  States are kept compacted     *)
(* (live nodes numbered 1..n in pre-order) so that node identities are     *)
(* quotiented away; `last` records the transition and is hidden by VIEW.   *)
(* TLC checks the invariants C01-C03 and the action properties C04/C13 on  *)
(* the specification, and (ACTION_CONSTRAINT Emit) prints every transition *)
(* as JSON for the replay harness.                                         *)
(***************************************************************************)
EXTENDS Nutree, Json

CONSTANTS MaxNodes,     \* bound on live nodes
          D,            \* data values 1..D
          Typed,        \* BOOLEAN: TypedTree
          Kinds,        \* kinds offered to add (subset of 1..), {0} for plain
          Xids,         \* explicit data_ids offered (subset of 11..), {0} = none
          MetaVals,     \* meta values 1..MetaVals (0: meta ops off)
          OpNames,      \* operation families enabled in this configuration
          EmitOn        \* BOOLEAN: print transitions

VARIABLES t, last
vars == <<t, last>>


Data == 1..D

(* fixed foreign source tree: a(b), b'  -- b' is a clone of b *)
SrcB == IF DefDid(1) = DefDid(2) THEN 3 ELSE 2    \* second data value of the source tree
SrcBDid == IF 11 \in Xids THEN 11 ELSE DefDid(SrcB)   \* configurations with explicit ids: the clones of the source carry one
SrcPlain == Derive([n |-> 3, par |-> <<0, 1, 0>>, kids |-> << <<2>>, <<>>, <<>> >>, top |-> <<1, 3>>,
              dat |-> <<1, SrcB, SrcB>>, did |-> <<DefDid(1), SrcBDid, SrcBDid>>,
              knd |-> <<0, 0, 0>>, meta |-> [i \in 1..3 |-> EmptyMeta], reg |-> {}, idx |-> <<>>, typed |-> FALSE])
SrcTyped == [SrcPlain EXCEPT !.knd = <<1, 2, 1>>, !.typed = TRUE]
Src == IF Typed THEN SrcTyped ELSE SrcPlain
World == [t |-> t, s |-> Src]

Parents(S) == {0} \cup Live(S)
Positions(S, p) ==
   {PosNone, [t |-> "true", v |-> 0], [t |-> "false", v |-> 0]}
   \cup {[t |-> "idx", v |-> i] : i \in 0..Len(KidsOf(S, p))}
   \cup {[t |-> "node", v |-> b] : b \in SeqSet(KidsOf(S, p))}
BadPositions(S, p) == {[t |-> "node", v |-> b] : b \in Live(S) \ SeqSet(KidsOf(S, p))}
                      \cup {[t |-> "idx", v |-> Len(KidsOf(S, p)) + j] : j \in 1..2}    \* beyond the end of the list
                      \cup {[t |-> "other", v |-> 0]}                                 \* neither bool, int nor node
MovePositions(S, x, p) ==   \* int positions are ambiguous for a move within the same parent: not driven
   IF p # x /\ S.par[x] = p
   THEN {PosNone, [t |-> "true", v |-> 0], [t |-> "false", v |-> 0], [t |-> "idx", v |-> 0]}
        \cup {[t |-> "node", v |-> b] : b \in SeqSet(KidsOf(S, p)) \ {x}}
   ELSE Positions(S, p)
Room(S) == MaxNodes - Cardinality(Live(S))

Ranks == { [d \in Data |-> d], [d \in Data |-> IF d = 1 THEN 2 ELSE 1] }
MetaMaps == [1..MetaKeys -> 0..MetaVals]

Need(S, x, dp) == IF dp THEN 1 + Cardinality(Desc(S, x)) ELSE 1
Ops(S) ==
   (IF "add" \in OpNames /\ Room(S) >= 1 THEN
      UNION {{[name |-> "add_child", p |-> p, d |-> d, xid |-> x, k |-> k, pos |-> pos] :
                 d \in Data, x \in Xids, k \in Kinds, pos \in Positions(S, p)} : p \in Parents(S)}
      \cup {[name |-> "add_child", p |-> p, d |-> d, xid |-> 0, k |-> 0, pos |-> PosNone, nid |-> 1] :
          p \in Parents(S), d \in Data}                   \* ... with a node_id chosen by the caller (nid: harness only)
      \cup {[name |-> nm, p |-> p, d |-> d, xid |-> 0, k |-> k] :
          nm \in {"append_child", "prepend_child"}, p \in Live(S), d \in Data, k \in Kinds}   \* Node methods only
      \cup {[name |-> nm, x |-> x, d |-> d, xid |-> 0] :
          nm \in {"prepend_sibling", "append_sibling"}, x \in Live(S), d \in Data}
    ELSE {})
   \cup
   (IF "badpos" \in OpNames /\ Room(S) >= 1 THEN
      {[name |-> "add_child_nid", p |-> p, d |-> d, x |-> x] : p \in Parents(S), d \in Data, x \in Live(S)} \cup
      UNION {{[name |-> "add_child", p |-> p, d |-> d, xid |-> 0, k |-> 0, pos |-> pos] :
                 d \in Data, pos \in BadPositions(S, p)} : p \in Parents(S)}
      \cup {[name |-> "add_child", p |-> p, d |-> d, xid |-> -1, k |-> 0, pos |-> PosNone] : p \in Parents(S), d \in Data}
      \cup {[name |-> "set_data", x |-> x, d |-> d, xid |-> -1, wc |-> wc] :
             x \in Live(S), d \in 0..1, wc \in {"none", "true"}}      \* data_id= of an unhashable type
      \cup (IF Typed THEN {[name |-> "add_child", p |-> p, d |-> d, xid |-> 0, k |-> -1, pos |-> PosNone] :
                             p \in Parents(S), d \in Data}       \* kind= of an unsupported type
            ELSE {})
    ELSE {})
   \cup
   (IF "add_node" \in OpNames THEN
      UNION {{[name |-> "add_node", p |-> pp[1], src |-> "T", x |-> pp[2], k |-> 0, deep |-> pp[3], pos |-> pos] :
                 pos \in IF Room(S) >= Need(S, pp[2], pp[3]) THEN Positions(S, pp[1]) ELSE {}} :
             pp \in Parents(S) \X Live(S) \X BOOLEAN}
      \cup
      UNION {{[name |-> "add_node", p |-> pp[1], src |-> "S", x |-> pp[2], k |-> 0, deep |-> pp[3], pos |-> pos] :
                 pos \in IF Room(S) >= Need(Src, pp[2], pp[3]) THEN {PosNone, [t |-> "true", v |-> 0]} ELSE {}} :
             pp \in Parents(S) \X Live(Src) \X BOOLEAN}
      \cup   \* x.copy_to(<a node of x's own branch>, deep=True): the copy of the branch as it was before the call
      UNION {{[name |-> "add_node", p |-> p, src |-> "T", x |-> x, k |-> 0, deep |-> TRUE, pos |-> PosNone, via |-> "copy_to"] :
                 p \in IF Room(S) >= Need(S, x, TRUE) THEN Desc(S, x) \cup {x} ELSE {}} : x \in Live(S)}
      \cup   \* the copy gets a node_id chosen by the caller / is asked to take another data_id
      (IF Room(S) >= 1 THEN
         {[name |-> "add_node", p |-> pp[1], src |-> "T", x |-> pp[2], k |-> 0, deep |-> pp[3], pos |-> PosNone, nid |-> 1] :
             pp \in Parents(S) \X Live(S) \X BOOLEAN}
         \cup {[name |-> "add_node", p |-> pp[1], src |-> "T", x |-> pp[2], k |-> 0, deep |-> FALSE, pos |-> PosNone, xidc |-> xc] :
                pp \in Parents(S) \X Live(S), xc \in {12} \cup {S.did[y] : y \in Live(S)}}
       ELSE {})
    ELSE {})
   \cup
   (IF "add_tree" \in OpNames THEN
      UNION {{[name |-> "add_tree", p |-> pp[1], deep |-> pp[2], pos |-> pos] :
                 pos \in IF Room(S) >= (IF pp[2] THEN Src.n ELSE Len(Src.top)) THEN Positions(S, pp[1]) ELSE {}} :
             pp \in Parents(S) \X BOOLEAN}
      \cup (IF "badpos" \in OpNames THEN     \* a whole tree at an int position beyond the end of the child list
              UNION {{[name |-> "add_tree", p |-> pp[1], deep |-> pp[2], pos |-> [t |-> "idx", v |-> Len(KidsOf(S, pp[1])) + j]] :
                         j \in IF Room(S) >= (IF pp[2] THEN Src.n ELSE Len(Src.top)) THEN 1..2 ELSE {}} :
                     pp \in Parents(S) \X BOOLEAN}
            ELSE {})
      \cup UNION {{[name |-> "add_empty_tree", p |-> p, deep |-> TRUE, pos |-> pos] : pos \in Positions(S, p)} : p \in Parents(S)}
      \cup {[name |-> "empty_tree_copy_to", p |-> p, deep |-> TRUE] : p \in Parents(S)}
      \cup {[name |-> "tree_copy_to", p |-> p, deep |-> dp] :
          p \in Parents(S), dp \in {b \in BOOLEAN : Room(S) >= (IF b THEN Src.n ELSE Len(Src.top))}}
      \cup UNION {{[name |-> "copy_children_to", p |-> pd[1], src |-> "T", x |-> x, deep |-> pd[2]] :
                      \* deep copies of a child list into the copied branch itself are not driven (doc-silent)
                      pd \in {q \in Parents(S) \X BOOLEAN :
                                 /\ Room(S) >= (IF q[2] THEN Cardinality(Desc(S, x)) ELSE Len(S.kids[x]))
                                 /\ (q[2] => q[1] \notin Desc(S, x))}} :
                   x \in Live(S)}
    ELSE {})
   \cup
   (IF "move" \in OpNames THEN
      UNION {{[name |-> "move_to", x |-> xp[1], p |-> xp[2], pos |-> pos] : pos \in MovePositions(S, xp[1], xp[2])} :
             xp \in Live(S) \X Parents(S)}
      \cup (IF "badpos" \in OpNames THEN
              {[name |-> "move_to", x |-> xp[1], p |-> xp[2], pos |-> [t |-> "idx", v |-> Len(KidsOf(S, xp[2])) + 2]] :
                  xp \in {q \in Live(S) \X Parents(S) : S.par[q[1]] # q[2]}}
              \cup   \* before=<a node that is not a child of the target> (possibly a clone of one)
              UNION {{[name |-> "move_to", x |-> xp[1], p |-> xp[2], pos |-> [t |-> "node", v |-> b]] :
                         b \in Live(S) \ (SeqSet(KidsOf(S, xp[2])) \cup {xp[1]})} :
                     xp \in Live(S) \X Parents(S)}
              \cup   \* before=<the moved node itself> / before=<neither bool, int nor node>
              UNION {{[name |-> "move_to", x |-> xp[1], p |-> xp[2], pos |-> pos] :
                         pos \in {[t |-> "node", v |-> xp[1]], [t |-> "other", v |-> 0]}} :
                     xp \in Live(S) \X Parents(S)}
            ELSE {})
      \cup {[name |-> "move_foreign", x |-> x] : x \in Live(S)}
    ELSE {})
   \cup
   (IF "remove" \in OpNames THEN
      {[name |-> "remove", x |-> x, keep |-> kp, clones |-> cl] : x \in Live(S), kp \in BOOLEAN, cl \in BOOLEAN}
      \cup {[name |-> "remove_children", p |-> p] : p \in Live(S)}
      \cup {[name |-> "clear"]}
      \cup {[name |-> "del", key |-> [t |-> "data", v |-> d]] : d \in Data}
      \cup {[name |-> "del", key |-> [t |-> "nid", v |-> x]] : x \in Live(S)}
    ELSE {})
   \cup
   (IF "sort" \in OpNames THEN
      {[name |-> "sort_children", p |-> p, rank |-> r, rev |-> rv, deep |-> dp] :
          p \in Parents(S), r \in Ranks, rv \in BOOLEAN, dp \in BOOLEAN}
    ELSE {})
   \cup
   (IF "set_data" \in OpNames THEN
      {[name |-> "set_data", x |-> x, d |-> d, xid |-> xi, wc |-> wc] :
          x \in Live(S), d \in 0..D, xi \in Xids, wc \in {"none", "true", "false"}}
      \cup {[name |-> "rename", x |-> x, d |-> d, isstr |-> b] : x \in Live(S), d \in Data, b \in BOOLEAN}
    ELSE {})
   \cup
   (IF "meta" \in OpNames THEN
      {[name |-> "set_meta", x |-> x, key |-> k, val |-> v] : x \in Live(S), k \in 1..MetaKeys, v \in 0..MetaVals}
      \cup {[name |-> "clear_meta", x |-> x, key |-> k] : x \in Live(S), k \in 0..MetaKeys}
      \cup {[name |-> "update_meta", x |-> x, m |-> m, replace |-> r] : x \in Live(S), m \in MetaMaps, r \in BOOLEAN}
    ELSE {})
   \cup
   (IF "filter" \in OpNames THEN
      {[name |-> "filter", p |-> p, v |-> v] : p \in Parents(S), v \in [1..S.n -> {"T", "F"}]}
    ELSE {})
   \cup
   (IF "filterx" \in OpNames THEN     \* the full verdict alphabet (C08's subject) as a mutation like any other (C01, C04)
      {[name |-> "filter", p |-> p, v |-> v] : p \in Parents(S),
          v \in [1..S.n -> {"T", "F", "skip", "skipKeep", "select", "stop"}] \ [1..S.n -> {"T", "F"}]}
    ELSE {})
   \cup
   (IF "stale" \in OpNames THEN      \* calls through handles of removed nodes (the handles themselves are not state of
                                     \* the tree: Compact drops removed nodes; the harness keeps the objects)
      {[name |-> "stale", what |-> w] : w \in {"add", "move_to_root", "move_into", "remove", "set_data"}}
    ELSE {})

----------------------------------------------------------------------------
(* JSON rendering *)
SetSeq(A) == SetToSortSeq(A, <)
StateJson(S) ==
   [n |-> S.n, par |-> S.par, kids |-> S.kids, top |-> S.top, dat |-> S.dat, did |-> S.did,
    knd |-> S.knd, meta |-> S.meta, reg |-> SetSeq(S.reg),
    idx |-> [j \in 1..Cardinality(DOMAIN S.idx) |->
               LET d == SetSeq(DOMAIN S.idx)[j] IN <<d, SetSeq(S.idx[d])>>],
    typed |-> S.typed, iter |-> Pre(S, 0)]
ResJson(r) == [ok |-> r.ok, errs |-> SetToSeq(r.errs), why |-> r.why, ret |-> r.ret, st |-> StateJson(r.st)]

Init == /\ t = EmptyTree(Typed)
        /\ last = [level |-> 0]

Next == \E op \in Ops(t) :
           LET r == Apply(World, op) IN
           /\ t' = Compact(r.st)
           /\ last' = [level |-> TLCGet("level"), pre |-> StateJson(t), op |-> op, ok |-> r.ok, why |-> r.why]

Spec == Init /\ [][Next]_vars
View == t

Emit == EmitOn => PrintT(ToJson(last'))
EmitStateInv == PrintT(ToJson([state |-> StateJson(t)]))   \* listed as INVARIANT to print every distinct state once

----------------------------------------------------------------------------
(* properties checked on the specification *)
InvWellFormed == WellFormed(t)          \* C01
InvIndexExact == IndexExact(t)          \* C02
InvSiblingUnique == SiblingUnique(t)    \* C03
InvBound == Cardinality(Live(t)) <= MaxNodes

Dbg(b, msg) == b \/ (PrintT(msg) /\ FALSE)
(* C13 / C03: a refused operation leaves the state unchanged, and every naive duplicate is refused *)
RefusalOp(op) == LET r == Apply(World, op) IN
                      /\ (~r.ok => r.st = t /\ r.errs # {})
                      /\ (r.ok => Consistent(r.st))      \* (errs # {} with ok: "carried out OR refused", see PosOOB)
RefusalFrame == \A op \in Ops(t) : Dbg(RefusalOp(op), <<"RefusalFrame fails", t, op>>)
(* C04: frame — nodes that survive an operation keep identity attributes unless the op edits them;
   surviving siblings that stay under the same parent keep their relative order unless sorting *)
FrameOp(op) == LET r == Apply(World, op) S1 == r.st IN
              r.ok =>
              /\ \A i \in Live(t) : S1.par[i] # -1 =>
                    /\ (op.name \notin {"set_data", "rename"} => S1.dat[i] = t.dat[i] /\ S1.did[i] = t.did[i])
                    /\ S1.knd[i] = t.knd[i]
                    /\ (op.name \notin {"set_meta", "clear_meta", "update_meta"} => S1.meta[i] = t.meta[i])
              /\ (op.name # "sort_children" =>
                    \A p \in (Live(t) \cup {0}) : (p = 0 \/ S1.par[p] # -1) =>
                        KeepsRelOrder(SelectSeq(KidsOf(t, p), LAMBDA y : op.name = "move_to" => y # op.x),
                                      SelectSeq(KidsOf(S1, p), LAMBDA y : op.name = "move_to" => y # op.x)))
              /\ (op.name \in {"set_data", "rename", "set_meta", "clear_meta", "update_meta", "sort_children"} =>
                    Live(S1) = Live(t) /\ S1.n = t.n)
              /\ (op.name \in {"set_data", "rename", "set_meta", "clear_meta", "update_meta"} =>
                    S1.kids = t.kids /\ S1.top = t.top /\ S1.par = t.par)
Frame == \A op \in Ops(t) : Dbg(FrameOp(op), <<"Frame fails", t, op>>)
=============================================================================
