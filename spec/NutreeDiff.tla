----------------------------- MODULE NutreeDiff -----------------------------
(***************************************************************************)
(* C11: declarative specification of Tree.diff(other, ordered, reduce) as  *)
(* a set of laws relating the two inputs T0, T1 and the annotated result R *)
(* (a tree state plus a mark per node).  Nodes are identified by their     *)
(* data-path (sequence of data_ids from the top level; unique by C03).     *)
(* Marks are constrained on children of parents present in both inputs;    *)
(* which of several added clones is classified "moved here" is left open   *)
(* (DESIGN.md Appendix B).                                                 *)
(***************************************************************************)
EXTENDS NutreeSerial

RemovedLike == {"removed", "moved_to"}
AddedLike == {"added", "moved_here"}

PathOf(S, x) == LET a == Rev(AncSeq(S, x)) IN [j \in 1..Len(a) |-> S.did[a[j]]] \o <<S.did[x]>>
Paths(S) == {PathOf(S, x) : x \in Reach(S)}
NodeAt(S, p) == CHOOSE x \in Reach(S) : PathOf(S, x) = p
KidsAt(S, p) == IF p = <<>> THEN S.top ELSE S.kids[NodeAt(S, p)]
KidDidsAt(S, p) == [j \in 1..Len(KidsAt(S, p)) |-> S.did[KidsAt(S, p)[j]]]
IndexIn(s, d) == (CHOOSE i \in 1..Len(s) : s[i] = d) - 1
IsSubSeqOf(a, b) ==   \* a is a (not necessarily contiguous) subsequence of b; both without duplicates
   /\ SeqSet(a) \subseteq SeqSet(b)
   /\ \A i, j \in 1..Len(a) : i < j => IndexIn(b, a[i]) < IndexIn(b, a[j])

(* R is a tree state with additional per-node fields mark, o0, o1 *)
UnderMark(R, x, M) == R.mark[x] \in M \/ \E a \in Anc(R, x) : R.mark[a] \in M

Laws(T0, T1, R, ordered, reduce) ==
   LET P0 == Paths(T0) P1 == Paths(T1)
       Both(p) == p = <<>> \/ (p \in P0 /\ p \in P1)
       RN == Reach(R)
       RP(x) == PathOf(R, x)
       Marked(x) == R.mark[x] # "none"
       Kept(x) == Marked(x) \/ \E y \in Desc(R, x) : Marked(y)
   IN
   [ sibling_unique |-> SiblingUnique(R),
     \* identical inputs: no marks (and, unreduced, the same content)
     identical_no_marks |-> (Canon(T0) = Canon(T1)) => (\A x \in RN : ~Marked(x)) /\ (reduce \/ DropKinds(Canon(R)) = DropKinds(Canon(T0))),
     \* dropping removed / moved-away nodes gives T1's parent-child relation
     projects_to_t1 |-> IF reduce THEN {RP(x) : x \in {y \in RN : ~UnderMark(R, y, RemovedLike)}} \subseteq P1
                        ELSE {RP(x) : x \in {y \in RN : ~UnderMark(R, y, RemovedLike)}} = P1,
     \* dropping added / moved-here nodes gives T0's child lists, in order, below every node present in both
     projects_to_t0 |-> \A p \in {<<>>} \cup {RP(x) : x \in RN} : Both(p) =>
                           LET rk == KidsAt(R, p)
                               old == SelectSeq([j \in 1..Len(rk) |-> IF R.mark[rk[j]] \in AddedLike THEN 0 ELSE R.did[rk[j]]],
                                                LAMBDA d : d # 0)
                           IN IF reduce THEN IsSubSeqOf(old, KidDidsAt(T0, p)) ELSE old = KidDidsAt(T0, p),
     \* marks sit exactly on children present on one side only
     marks_one_sided |-> \A x \in RN : Both(Front(RP(x))) =>
                           LET in0 == RP(x) \in P0 in1 == RP(x) \in P1 IN
                           /\ (in0 /\ ~in1 => R.mark[x] \in RemovedLike)
                           /\ (~in0 /\ in1 => R.mark[x] \in AddedLike)
                           /\ (in0 /\ in1 => R.mark[x] \in {"none", "order"})
                           /\ (in0 \/ in1),
     \* a moved-here node has a moved-away node with the same data
     moved_pairs |-> \A x \in RN : R.mark[x] = "moved_here" => \E y \in RN : R.mark[y] = "moved_to" /\ R.did[y] = R.did[x] /\ R.dat[y] = R.dat[x],
     \* order marks carry the true old and new index
     order_marks |-> \A x \in RN : (Both(Front(RP(x))) /\ RP(x) \in P0 /\ RP(x) \in P1) =>
                        LET i0 == IndexIn(KidDidsAt(T0, Front(RP(x))), R.did[x])
                            i1 == IndexIn(KidDidsAt(T1, Front(RP(x))), R.did[x])
                        IN IF ordered /\ i0 # i1 THEN R.mark[x] = "order" /\ R.o0[x] = i0 /\ R.o1[x] = i1
                           ELSE R.mark[x] = "none",
     \* reduce keeps exactly the marked nodes and their ancestors ...
     reduce_only_marked |-> reduce => \A x \in RN : Kept(x),
     \* ... and loses none of them
     reduce_complete |-> reduce =>
        \A p \in {<<>>} \cup (P0 \cap P1) :
           LET k0 == KidDidsAt(T0, p) k1 == KidDidsAt(T1, p) IN
           \A d \in SeqSet(k0) \cup SeqSet(k1) :
              LET one == ~(d \in SeqSet(k0) /\ d \in SeqSet(k1))
                  moved == ordered /\ ~one /\ IndexIn(k0, d) # IndexIn(k1, d)
              IN (one \/ moved) => (p \o <<d>>) \in {RP(x) : x \in RN}
   ]
(* reduce=True against reduce=False for the same inputs: the reduced result is the full result restricted to the
   marked nodes and their ancestors, with the marks they have there.  Marks are compared by class (which of several
   added clones becomes "moved here" is not pinned and may differ between two calls). *)
MarkClass(m) == IF m \in AddedLike THEN "added" ELSE IF m \in RemovedLike THEN "removed" ELSE m
ReduceRestricts(RF, R) ==
   LET KeptF == {x \in Reach(RF) : RF.mark[x] # "none" \/ \E y \in Desc(RF, x) : RF.mark[y] # "none"}
   IN /\ {PathOf(R, x) : x \in Reach(R)} = {PathOf(RF, x) : x \in KeptF}
      /\ \A x \in Reach(R) : \A y \in KeptF :
            PathOf(R, x) = PathOf(RF, y) => MarkClass(R.mark[x]) = MarkClass(RF.mark[y])
LawNames == {"sibling_unique", "identical_no_marks", "projects_to_t1", "projects_to_t0", "marks_one_sided", "moved_pairs",
             "order_marks", "reduce_only_marked", "reduce_complete"}
=============================================================================
