------------------------------ MODULE TraceGen ------------------------------
(* code -> spec for C20: records {id, def (abstract structure definition), g (generated tree, flat), cls_ok, kinds_ok};
   TLC evaluates NutreeGen!Conforms clause by clause on the real generator's output *)
EXTENDS NutreeGen, Json, IOUtils
VARIABLE dummy
Recs == JsonDeserialize(IOEnv.TRACE_FILE)
Say(cond, id, prop, clause, why) == cond \/ PrintT(<<"MISMATCH", id, prop, clause, why>>)
CheckRec(e) ==
   LET G == e.g Def == e.def why == e.name IN
   /\ Say(e.status = "ok", e.id, "C20", "build.status:" \o e.status, why)
   /\ (e.status = "ok" =>
         /\ Say(e.cls_ok, e.id, "C20", "tree_class", why)
         /\ Say(e.kinds_ok, e.id, "C20", "kind_is_type_name", why)
         /\ \A p \in Live(G) \cup {0} :
               LET c == ConformsKids(G, Def, p) IN
               /\ Say(c.types, e.id, "C20", "child_type_not_allowed", why)
               /\ Say(c.grouped, e.id, "C20", "children_not_in_relation_order", why)
               /\ Say(c.counts, e.id, "C20", "child_count_out_of_range", why)
         /\ \A x \in Live(G) :
               LET c == ConformsNode(G, Def, x) IN
               /\ Say(c.type_allowed, e.id, "C20", "child_type_not_allowed", why)
               /\ Say(c.attrs_exact, e.id, "C20", "attribute_set_differs_from_merge", why)
               /\ Say(c.values, e.id, "C20", "attribute_value", why))
ASSUME \A i \in 1..Len(Recs) : CheckRec(Recs[i])
ASSUME PrintT(<<"CHECKED", Len(Recs)>>)
Init == dummy = 0
Next == UNCHANGED dummy
=============================================================================
