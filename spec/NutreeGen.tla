----------------------------- MODULE NutreeGen -----------------------------
(***************************************************************************)
(* C20: build_random_tree(structure_def).                                  *)
(* An abstract structure definition Def is a record                        *)
(*   glob  : attribute layer of "*" (defaults for all types)               *)
(*   types : sequence of <<type, layer>>                                   *)
(*   rels  : sequence of <<parent type (0 = __root__), seq of child specs>>*)
(*           child spec = [type, lo, hi, zero, layer]: the number of       *)
(*           children of that type is in lo..hi, or 0 if `zero`            *)
(* A layer is a sequence of <<key, spec>>, spec = [k, a, b, opt]:          *)
(*   "fixed" value a | "idx" | "hier" | "range" a..b (integers; dates as   *)
(*   days, floats in micro units) | "value" a (or absent) | "present"      *)
(*   opt = the attribute may be absent (randomizer probability < 1)        *)
(* Attributes of a node = merge(glob, type layer, relation layer), later   *)
(* layers win.  A generated tree G is [n, par, kids, top, typ, att] with   *)
(* att[i] a sequence of <<key, value>> and values sequences of integers.   *)
(* Conforms(G, Def) is the property; Gen* is a nondeterministic generator  *)
(* whose every outcome must conform (MC_Gen), so that the predicate is     *)
(* neither vacuous nor stricter than the documented generator.             *)
(***************************************************************************)
EXTENDS Naturals, Integers, Sequences, FiniteSets, TLC, SequencesExt, FiniteSetsExt

SeqSet(s) == {s[i] : i \in 1..Len(s)}
LayerKeys(l) == {l[i][1] : i \in 1..Len(l)}
LayerGet(l, k) == (CHOOSE i \in 1..Len(l) : l[i][1] = k /\ \A j \in (i + 1)..Len(l) : l[j][1] # k)
TypeLayer(Def, t) == IF \E i \in 1..Len(Def.types) : Def.types[i][1] = t
                     THEN Def.types[CHOOSE i \in 1..Len(Def.types) : Def.types[i][1] = t][2] ELSE <<>>
(* merged attribute specs for a child of type t created through relation layer rl *)
MergedKeys(Def, t, rl) == LayerKeys(Def.glob) \cup LayerKeys(TypeLayer(Def, t)) \cup LayerKeys(rl)
MergedSpec(Def, t, rl, k) ==
   IF k \in LayerKeys(rl) THEN rl[LayerGet(rl, k)][2]
   ELSE IF k \in LayerKeys(TypeLayer(Def, t)) THEN TypeLayer(Def, t)[LayerGet(TypeLayer(Def, t), k)][2]
   ELSE Def.glob[LayerGet(Def.glob, k)][2]

RelsOf(Def, pt) == IF \E i \in 1..Len(Def.rels) : Def.rels[i][1] = pt
                   THEN Def.rels[CHOOSE i \in 1..Len(Def.rels) : Def.rels[i][1] = pt][2] ELSE <<>>

KidsOf(G, p) == IF p = 0 THEN G.top ELSE G.kids[p]
TypeOf(G, p) == IF p = 0 THEN 0 ELSE G.typ[p]
RECURSIVE HierOf(_, _)
IdxOf(G, x) ==    \* 1-based index among the siblings of the same type
   LET sib == KidsOf(G, G.par[x]) IN
   Cardinality({j \in 1..Len(sib) : G.typ[sib[j]] = G.typ[x] /\ j <= (CHOOSE q \in 1..Len(sib) : sib[q] = x)})
HierOf(G, x) == IF G.par[x] = 0 THEN <<IdxOf(G, x)>> ELSE HierOf(G, G.par[x]) \o <<IdxOf(G, x)>>

AttKeys(G, x) == {G.att[x][i][1] : i \in 1..Len(G.att[x])}
AttVal(G, x, k) == G.att[x][CHOOSE i \in 1..Len(G.att[x]) : G.att[x][i][1] = k][2]

ValueOk(G, x, sp, v) ==
   CASE sp.k = "fixed"   -> v = <<sp.a>>
     [] sp.k = "idx"     -> v = <<IdxOf(G, x)>>
     [] sp.k = "hier"    -> v = HierOf(G, x)
     [] sp.k = "range"   -> Len(v) = 1 /\ v[1] >= sp.a /\ v[1] <= sp.b
     [] sp.k = "value"   -> v = <<sp.a>>
     [] sp.k = "present" -> TRUE

(* which clause fails, for diagnostics: a record of booleans *)
ConformsNode(G, Def, x) ==
   LET pt == TypeOf(G, G.par[x])
       rs == RelsOf(Def, pt)
       me == {i \in 1..Len(rs) : rs[i].type = G.typ[x]}
   IN IF me = {} THEN [type_allowed |-> FALSE, attrs_exact |-> TRUE, values |-> TRUE]
      ELSE LET rl == rs[CHOOSE i \in me : TRUE].layer
               keys == MergedKeys(Def, G.typ[x], rl)
           IN [type_allowed |-> TRUE,
               attrs_exact |-> /\ AttKeys(G, x) \subseteq keys
                               /\ \A k \in keys : MergedSpec(Def, G.typ[x], rl, k).opt \/ k \in AttKeys(G, x)
                               /\ Len(G.att[x]) = Cardinality(AttKeys(G, x)),
               values |-> \A k \in AttKeys(G, x) \cap keys : ValueOk(G, x, MergedSpec(Def, G.typ[x], rl, k), AttVal(G, x, k))]

ConformsKids(G, Def, p) ==
   LET rs == RelsOf(Def, TypeOf(G, p))
       ks == KidsOf(G, p)
       relIdx(c) == CHOOSE i \in 1..Len(rs) : rs[i].type = G.typ[c]
   IN [types |-> \A j \in 1..Len(ks) : \E i \in 1..Len(rs) : rs[i].type = G.typ[ks[j]],
       grouped |-> (\A j \in 1..Len(ks) : \E i \in 1..Len(rs) : rs[i].type = G.typ[ks[j]]) =>
                      \A j1, j2 \in 1..Len(ks) : j1 < j2 => relIdx(ks[j1]) <= relIdx(ks[j2]),
       counts |-> \A i \in 1..Len(rs) :
                     LET c == Cardinality({j \in 1..Len(ks) : G.typ[ks[j]] = rs[i].type}) IN
                     (c >= rs[i].lo /\ c <= rs[i].hi) \/ (rs[i].zero /\ c = 0)]

Live(G) == 1..G.n
Conforms(G, Def) ==
   /\ \A p \in Live(G) \cup {0} : LET c == ConformsKids(G, Def, p) IN c.types /\ c.grouped /\ c.counts
   /\ \A x \in Live(G) : LET c == ConformsNode(G, Def, x) IN c.type_allowed /\ c.attrs_exact /\ c.values
=============================================================================
