#!/bin/bash
# Offline setup: nothing to build (TLA+ specs are interpreted by TLC, the harness is plain Python).
# Sanity-check the toolchain and validate MANIFEST.json.
set -e
cd "$(dirname "$0")"
mkdir -p work evidence
test -f /opt/veriftools/tla/tla2tools.jar && java -version >/dev/null 2>&1 || { echo "TLC/java not available"; exit 1; }
PYTHONPATH=/repo /venv/bin/python -c "import nutree" || { echo "nutree not importable"; exit 1; }
if command -v python3-vt >/dev/null; then
python3-vt - <<'PY'
import json, jsonschema
jsonschema.validate(json.load(open('/verif/MANIFEST.json')), json.load(open('/root/.vp/MANIFEST.schema.json')))
print("MANIFEST.json valid")
PY
fi
./check --selftest | tail -1     # binding self-test: corrupted records must be rejected by TLC with the guarding clause
echo "setup ok"
